// C20 — a value behaves the same wherever it came from.
//
// Metamorphic oracle: a case is (operation template, operand value per slot,
// provenance chain per slot). Every operand value V is created ONCE in a
// prelude variable (v0, v1, ...). The baseline program uses the bare
// variable in the slot; the chained program uses an expression that routes the
// SAME value through 1..3 hops (slice element, map entry, struct field, script
// call, Go call returning interface{}, parentheses, ternary, nil-coalescing).
// Both programs run in their own fresh env and must agree on error-or-success,
// on the result (value and dynamic type) and on the final content of every
// prelude variable (so that writes through a chain reach the same object).
//
// A second sub-check, `held` (held_test.go), puts the value into a NAMED place and overwrites that place after
// the operand was consumed: a value that was bound to a name or used as an earlier operand stays what it was.
//
// A third sub-check, `computed` (computed_test.go), varies the ORIGIN of the value instead of its route: the
// result of an operation against the same value spelled as a literal, under & and a write through the pointer.
//
// A fourth sub-check, `alias` (alias_test.go), binds the routed value to a new name and looks at its IDENTITY: a
// write through the new name followed by a read through the old one (modules are copied by = and var, reference
// values are shared - the same way for every provenance).
package c20

import (
	"context"
	"fmt"
	"math"
	"reflect"
	"regexp"
	"sort"
	"strings"
	"testing"
	"time"

	"github.com/mattn/anko/ast"
	"github.com/mattn/anko/env"
	"github.com/mattn/anko/parser"
	"github.com/mattn/anko/vm"
	"pgregory.net/rapid"

	"verif/internal/ank"
	"verif/internal/h"
	"verif/internal/vals"
)

// ---------------------------------------------------------------- case type

// Val is one operand value. K names a scalar class (nil true false int float
// str) or one of the fixed compound values of the table below.
type Val struct {
	K  string `json:"k"`
	I  int64  `json:"i,omitempty"`
	FB uint64 `json:"fb,omitempty"`
	S  string `json:"s,omitempty"`
}

// Slot is one operand position: the value and the provenance chain (hop names,
// innermost first). An empty chain is the baseline provenance (a variable).
type Slot struct {
	V     Val      `json:"v"`
	Chain []string `json:"chain,omitempty"`
}

// Case is one metamorphic case.
type Case struct {
	T     string `json:"t"`              // template
	Op    string `json:"op,omitempty"`   // operator / variant of the template
	N     int    `json:"n,omitempty"`    // literal argument count of call-like templates
	Name  string `json:"name,omitempty"` // member name
	Slots []Slot `json:"slots"`
	// Fix names the substitution fixSlots made to keep the case inside the domain ("" = none); counted as
	// class "constr:<Fix>"
	Fix string `json:"fix,omitempty"`
}

// ---------------------------------------------------------------- values

type compound struct {
	name string
	cat  string                // slice map ptr chan func struct mod
	mk   func(v string) string // prelude statements creating the value in variable v
	typ  string                // anko type name usable as a struct field type ("" = none)
	ln   int                   // length for slices (-1: not a slice)
}

func fm(format string) func(string) string {
	return func(v string) string { return strings.ReplaceAll(format, "$", v) }
}

var compounds = []compound{
	{"sl_empty", "slice", fm(`$ = []`), "[]interface", 0},
	{"sl_ints", "slice", fm(`$ = [1, 2, 3]`), "[]interface", 3},
	{"sl_mixed", "slice", fm(`$ = ["a", 1.5, nil, true]`), "[]interface", 4},
	{"sl_nested", "slice", fm(`$ = [[1, 2], [3]]`), "[]interface", 2},
	{"sl_one", "slice", fm(`$ = [7]`), "[]interface", 1},
	{"sl_two", "slice", fm(`$ = [5, "b"]`), "[]interface", 2},
	{"sl_t_int64", "slice", fm(`$ = []int64{4, 5, 6}`), "[]int64", 3},
	{"sl_t_two", "slice", fm(`$ = []int64{8, 9}`), "[]int64", 2},
	{"sl_t_str", "slice", fm(`$ = []string{"x", "y"}`), "[]string", 2},
	{"sl_t_f64", "slice", fm(`$ = []float64{1.5, 2.5}`), "[]float64", 2},
	{"sl_t_made", "slice", fm(`$ = make([]int64, 2, 5)`), "[]int64", 2},
	{"sl_t_2d", "slice", fm(`$ = make([][]int64, 2)`), "[][]int64", 2},
	{"sl_nil", "slice", fm(`$ = make([][]int64, 1)[0]`), "[]int64", 0},
	{"mp_empty", "map", fm(`$ = {}`), "map[interface]interface", -1},
	{"mp_str", "map", fm(`$ = {"k": 1, "a": "b"}`), "map[interface]interface", -1},
	{"mp_nested", "map", fm(`$ = {"k": [1, 2], "m": {"k": 3}}`), "map[interface]interface", -1},
	{"mp_intkey", "map", fm(`$ = {1: "one", 2: "two"}`), "map[interface]interface", -1},
	{"mp_t_si", "map", fm(`$ = map[string]int64{"k": 1, "z": 26}`), "map[string]int64", -1},
	{"mp_t_is", "map", fm(`$ = map[int64]string{1: "a"}`), "map[int64]string", -1},
	{"mp_t_sx", "map", fm(`$ = map[string]interface{"k": [1], "a": 2}`), "map[string]interface", -1},
	{"mp_nil", "map", fm(`$ = make([]map[string]int64, 1)[0]`), "map[string]int64", -1},
	{"pt_int0", "ptr", fm(`$ = new(int64)`), "*int64", -1},
	{"pt_int5", "ptr", fm("$ = new(int64)\n*$ = 5"), "*int64", -1},
	{"pt_bool", "ptr", fm("$ = new(bool)\n*$ = true"), "*bool", -1},
	{"pt_str", "ptr", fm("$ = new(string)\n*$ = \"a\""), "*string", -1},
	{"pt_nil", "ptr", fm(`$ = make([]*int64, 1)[0]`), "*int64", -1},
	{"pt_iface", "ptr", fm("w$ = 3\n$ = &w$"), "", -1},
	{"pt_slice", "ptr", fm("$ = new([]int64)\n*$ = []int64{1, 2}"), "*[]int64", -1},
	{"pt_struct", "ptr", fm("$ = new(struct{A int64, B string})\n$.A = 4"), "", -1},
	{"ch_open", "chan", fm("$ = make(chan int64, 4)\n$ <- 10\n$ <- 20"), "chan int64", -1},
	{"ch_closed", "chan", fm("$ = make(chan int64, 4)\n$ <- 10\n$ <- 20\nclose($)"), "chan int64", -1},
	{"ch_iface", "chan", fm("$ = make(chan interface, 4)\n$ <- \"a\"\n$ <- 2"), "chan interface", -1},
	{"ch_closed_empty", "chan", fm("$ = make(chan int64, 2)\nclose($)"), "chan int64", -1},
	{"fn0", "func", fm(`$ = func(){ return 7 }`), "", -1},
	{"fn1", "func", fm(`$ = func(a){ return a }`), "", -1},
	{"fn2", "func", fm(`$ = func(a, b){ return [a, b] }`), "", -1},
	{"fnv", "func", fm(`$ = func(a...){ return a }`), "", -1},
	{"fnmut", "func", fm("$ = func(){\nhcnt[0] = hcnt[0] + 1\nhdone <- 1\nreturn hcnt[0]\n}"), "", -1},
	{"fnthrow", "func", fm(`$ = func(){ throw "boom" }`), "", -1},
	{"fnrec", "func", fm("$ = func(a...){\nhacc += [a]\nreturn len(a)\n}"), "", -1},
	// Go values whose types have methods but are neither structs nor pointers to structs
	{"named_dur", "named", fm(`$ = hdur()`), "", -1},
	{"named_strs", "named", fm(`$ = hstrs()`), "", -1},
	// the same kinds of values bound by the host as plain variables (not handed out by a Go function):
	// the baseline then holds the Go value itself
	{"named_durv", "named", fm(`$ = hdurv`), "", -1},
	{"named_lvlv", "named", fm(`$ = hlvlv`), "", -1},
	// typed nils of kind chan and func (added after the sixth round). A script can make a nil channel (the zero
	// element of a made []chan T) but no nil function: those are bound by the host, as a plain variable and as
	// the unset field of a host struct (an unset callback, an unset event channel)
	{"ch_nil", "nilchan", fm(`$ = make([]chan int64, 1)[0]`), "chan int64", -1},
	{"ch_nil_h", "nilchan", fm(`$ = hnilch`), "chan int64", -1},
	{"ch_nil_fld", "nilchan", fm(`$ = hhooks.Events`), "chan int64", -1},
	{"fn_nil_h", "nilfunc", fm(`$ = hnilfn`), "", -1},
	{"fn_nil_fld", "nilfunc", fm(`$ = hhooks.OnDone`), "", -1},
	{"st_val", "struct", fm("$ = make(struct{A int64, B string})\n$.A = 3\n$.B = \"s\""), "", -1},
	{"st_iface", "struct", fm("$ = make(struct{A interface, B []int64})\n$.A = \"x\""), "", -1},
	{"mod", "mod", fm("module $ {\na = 1\nb = \"s\"\nfunc f() { return 2 }\n}"), "", -1},
}

var compoundByName = map[string]*compound{}
var kindsByCat = map[string][]string{}
var allKinds []string

var scalarKinds = []string{"nil", "true", "false", "int", "float", "str"}

func init() {
	for i := range compounds {
		c := &compounds[i]
		compoundByName[c.name] = c
		kindsByCat[c.cat] = append(kindsByCat[c.cat], c.name)
	}
	kindsByCat["num"] = []string{"int", "int", "float", "int"}
	kindsByCat["bool"] = []string{"true", "false"}
	kindsByCat["str"] = []string{"str"}
	kindsByCat["nil"] = []string{"nil"}
	kindsByCat["scalar"] = scalarKinds
	kindsByCat["indexable"] = append(append(append([]string{}, kindsByCat["slice"]...), kindsByCat["map"]...), "str")
	kindsByCat["iterable"] = append(append(append([]string{}, kindsByCat["slice"]...), kindsByCat["map"]...), "ch_closed", "ch_closed_empty")
	kindsByCat["hasmember"] = append(append(append([]string{}, kindsByCat["map"]...), kindsByCat["struct"]...), "mod", "pt_struct", "mod", "named_dur", "named_strs", "named_dur", "named_strs", "named_durv", "named_lvlv", "named_durv", "named_lvlv")
	kindsByCat["settable"] = append(append([]string{}, kindsByCat["map"]...), "mod", "pt_struct", "pt_struct", "mod")
	kindsByCat["truthy"] = []string{"true", "false", "int", "float", "str", "nil", "sl_empty", "sl_ints", "mp_empty", "mp_str", "pt_int0", "pt_int5", "pt_bool", "pt_str", "pt_nil", "sl_nil", "mp_nil", "ch_nil", "fn_nil_h"}
	// every typed nil: pointer, slice, map, channel, function
	kindsByCat["tnil"] = append(append([]string{"pt_nil", "sl_nil", "mp_nil"}, kindsByCat["nilchan"]...), kindsByCat["nilfunc"]...)
	// the left operand of ??: nil, the typed nils, and values of the same kinds that are not nil
	kindsByCat["nilable"] = append(append([]string{"nil", "nil"}, kindsByCat["tnil"]...), "pt_int5", "sl_empty", "mp_empty", "ch_open", "fn0", "int", "str", "false")
	kindsByCat["key"] = []string{"str", "int", "str", "true", "float"}
	kindsByCat["sliceish"] = kindsByCat["slice"]
	// the "any" distribution gives every category a comparable share
	for _, cat := range []string{"scalar", "slice", "map", "ptr", "chan", "func", "struct", "mod", "tnil"} {
		allKinds = append(allKinds, cat)
	}
}

// int values are either small or astronomically large: anything in between
// would make `make([]T, x)` or `"s" * x` really allocate gigabytes.
var intPool = []int64{0, 1, 2, 3, -1, -2, 4, 5, 6, 7, 10, 63, 64, 255, 4095, 4096, 4097, -4096,
	1 << 53, 1<<53 + 1, -(1 << 53) - 1, 1 << 62, math.MaxInt64, math.MinInt64}

var floatPool = []float64{0, math.Copysign(0, -1), 0.5, 1, 1.5, -1, 2, 2.7, 3, -2.5, 4095, 4096.5,
	float64(1 << 53), 1e15, 1e20, math.MaxFloat64, math.Inf(1), math.Inf(-1), math.NaN(), 1e-7}

var strPool = []string{"", "a", "abc", "k", "1", "2", "-1", "1.5", "0", "true", "false", "x y", "héllo", "0x10", "v0", "1e3", "b"}

// pick draws an element without rapid's bias towards the head of the list
// (the draw is hashed), so that every template / value / hop gets its share.
func pick[T any](t *rapid.T, label string, xs []T) T {
	u := rapid.Uint64().Draw(t, label)
	u ^= u >> 30
	u *= 0xBF58476D1CE4E5B9
	u ^= u >> 27
	u *= 0x94D049BB133111EB
	u ^= u >> 31
	return xs[u%uint64(len(xs))]
}

func genScalar(t *rapid.T, k string) Val {
	switch k {
	case "int":
		if rapid.IntRange(0, 9).Draw(t, "ismall") < 6 {
			return Val{K: "int", I: rapid.Int64Range(-2, 6).Draw(t, "i")}
		}
		return Val{K: "int", I: pick(t, "ipool", intPool)}
	case "float":
		return Val{K: "float", FB: math.Float64bits(pick(t, "fpool", floatPool))}
	case "str":
		return Val{K: "str", S: pick(t, "spool", strPool)}
	}
	return Val{K: k}
}

// genVal draws a value: mostly from the slot's natural category, else anything.
func genVal(t *rapid.T, pref string) Val {
	cat := pref
	if pref == "any" || rapid.IntRange(0, 99).Draw(t, "natural") >= 65 {
		cat = pick(t, "cat", allKinds)
	}
	k := pick(t, "kind", kindsByCat[cat])
	if _, ok := compoundByName[k]; ok {
		return Val{K: k}
	}
	return genScalar(t, k)
}

func (v Val) cat() string {
	if c, ok := compoundByName[v.K]; ok {
		return c.cat
	}
	return "scalar"
}

func (v Val) isScalar() bool { return v.cat() == "scalar" }

// lit spells a scalar as an anko literal expression.
func (v Val) lit() string {
	switch v.K {
	case "nil", "true", "false":
		return v.K
	case "int":
		return vals.IntLit(v.I)
	case "float":
		return vals.FloatLit(math.Float64frombits(v.FB))
	case "str":
		return vals.StrLit(v.S)
	}
	panic("lit of compound " + v.K)
}

// mk renders the prelude statements that create the value in variable name.
func (v Val) mk(name string) string {
	if c, ok := compoundByName[v.K]; ok {
		return c.mk(name)
	}
	return name + " = " + v.lit()
}

// fieldType is the anko type name of the value when it can be spelled.
func (v Val) fieldType() string {
	switch v.K {
	case "true", "false":
		return "bool"
	case "int":
		return "int64"
	case "float":
		return "float64"
	case "str":
		return "string"
	case "nil":
		return ""
	}
	return compoundByName[v.K].typ
}

// approxInt mirrors the interpreter's integer conversion for scalar values; ok
// is false when the value is not a scalar.
func (v Val) approxInt() (int64, bool) {
	switch v.K {
	case "nil", "false":
		return 0, true
	case "true":
		return 1, true
	case "int":
		return v.I, true
	case "float":
		return int64(math.Float64frombits(v.FB)), true
	case "str":
		// any spelling of a small number in the pool
		switch v.S {
		case "1":
			return 1, true
		case "2":
			return 2, true
		case "-1":
			return -1, true
		case "0x10":
			return 16, true
		}
		return 0, true
	}
	return 0, false
}

// ---------------------------------------------------------------- hops

var hopNames = []string{"elem", "elem", "elem", "mapidx", "mapidx", "mapdot", "call", "call", "id", "id", "id", "paren", "tern", "coal", "sfield_i", "sfield_t"}

// hops whose result is an interface-typed reflect.Value (or, for map entries and
// script calls, is produced by code that has to unwrap / forward one).
var ifaceHop = map[string]bool{"elem": true, "mapidx": true, "mapdot": true, "id": true, "call": true, "sfield_i": true}

// effIface reports whether the chain delivers the value as an interface-typed
// reflect.Value on the unchanged interpreter: slice element, Go call and
// interface-typed field do; map reads unwrap; typed fields and variables hold
// the concrete value; script calls, parentheses, ternary and ?? forward what
// they got.
func effIface(chain []string) bool {
	st := false
	for _, hp := range chain {
		switch hp {
		case "elem", "id", "sfield_i":
			st = true
		case "mapidx", "mapdot", "sfield_t":
			st = false
		}
	}
	return st
}

// F-ptr-through-interface (repaired in /repo by a54f5fc): the conversions
// toBool/tryToInt/... and equal() stripped exactly ONE level of
// pointer-or-interface, so a pointer variable was dereferenced where the same
// pointer wrapped in an interface value was not. Affected were the operand
// positions that do not unwrap before converting. The shape is generated and
// asserted like any other; it keeps its own class counter and, should it
// regress, its own signature (one per conversion routine).
var noUnwrapPos = map[string][]int{
	"if": {0}, "forcond": {0}, "ternary": {0}, "in": {0}, "switch": {0, 1},
	"makeslice": {0}, "makechan": {0}, "slice": {1, 2}, "index": {1}, "letmapitem": {1},
}

// the conversion routine that strips only one level, per template
var knownConv = map[string]string{
	"if": "toBool", "forcond": "toBool", "ternary": "toBool",
	"in": "equal", "switch": "equal",
	"makeslice": "toInt", "makechan": "toInt", "slice": "toInt", "index": "toInt", "letmapitem": "toInt",
}

// F-typed-nil-through-interface (repaired in /repo by 96dccda): isNil()
// reported a typed nil pointer/map/slice as nil but not an interface value
// holding it, so `x ?? y` kept the wrapped nil and equal() (in, switch) did not
// match it with nil. The shape is generated and asserted like any other; it
// keeps its own class counter and, should it regress, its own signature.
var typedNil = map[string]bool{"pt_nil": true, "sl_nil": true, "mp_nil": true,
	"ch_nil": true, "ch_nil_h": true, "ch_nil_fld": true, "fn_nil_h": true, "fn_nil_fld": true}

// nilKind is "chan" / "func" for the typed nils added after the sixth round (a nil test that looks through an
// interface value for some kinds only), "" for the others.
func nilKind(k string) string {
	if cp, ok := compoundByName[k]; ok {
		switch cp.cat {
		case "nilchan":
			return "chan"
		case "nilfunc":
			return "func"
		}
	}
	return ""
}

var nilPtrPos = map[string][]int{"coalesce": {0}, "in": {0}, "switch": {0, 1}}

func nilPtrShape(c Case, i int) bool {
	if i >= len(c.Slots) || !typedNil[c.Slots[i].V.K] || !effIface(c.Slots[i].Chain) {
		return false
	}
	for _, p := range nilPtrPos[c.T] {
		if p == i {
			return true
		}
	}
	return false
}

func knownPtrShape(c Case, i int) bool {
	if nilPtrShape(c, i) {
		return false
	}
	if i >= len(c.Slots) || c.Slots[i].V.cat() != "ptr" || !effIface(c.Slots[i].Chain) {
		return false
	}
	for _, p := range noUnwrapPos[c.T] {
		if p == i {
			return true
		}
	}
	return false
}

// lastIfaceHop names the hop that leaves the value interface-held at the end of the chain.
func lastIfaceHop(chain []string) string {
	r := "none"
	for _, hp := range chain {
		switch hp {
		case "elem", "id", "sfield_i":
			r = hp
		case "mapidx", "mapdot", "sfield_t":
			r = "none"
		}
	}
	return r
}

func genChain(t *rapid.T, v Val, force bool) []string {
	if !force && rapid.IntRange(0, 9).Draw(t, "baseline?") < 3 {
		return nil
	}
	n := rapid.IntRange(1, 3).Draw(t, "chainlen")
	ch := make([]string, 0, n)
	for i := 0; i < n; i++ {
		hp := pick(t, "hop", hopNames)
		if hp == "sfield_t" && v.fieldType() == "" {
			hp = "sfield_i"
		}
		if v.K == "mod" && (hp == "sfield_i" || hp == "sfield_t") {
			// assigning a module copies it: the chain would reach another object
			hp = "elem"
		}
		ch = append(ch, hp)
	}
	return ch
}

// ---------------------------------------------------------------- templates

type template struct {
	name   string
	weight int
	prefs  []string // natural category per slot
	ops    []string // variants (Op)
}

var binOps = []string{"+", "-", "*", "/", "%", "&", "|", "<<", ">>", "==", "!=", "<", "<=", ">", ">=", "&&", "||"}
var memberNames = []string{"k", "a", "A", "B", "f", "zz", "m", "String", "Len", "Seconds", "Next", "String", "Seconds"}

var templates = []template{
	{name: "un", weight: 5, prefs: []string{"num"}, ops: []string{"-", "!", "^"}},
	{name: "bin", weight: 16, prefs: []string{"num", "num"}, ops: binOps},
	{name: "index", weight: 3, prefs: []string{"indexable", "key"}},
	{name: "slice", weight: 3, prefs: []string{"sliceish", "num", "num"}, ops: []string{"b:e", "b:", ":e"}},
	{name: "len", weight: 2, prefs: []string{"indexable"}},
	{name: "in", weight: 3, prefs: []string{"scalar", "sliceish"}, ops: []string{"slot", "lit"}},
	{name: "call", weight: 3, prefs: []string{"func"}},
	{name: "callarg", weight: 3, prefs: []string{"any", "any"}, ops: []string{"hf2", "hfv", "gpair", "gi", "gs"}},
	// Go functions whose parameter needs a conversion that only the dynamic value decides: a func type, a
	// typed map, a typed pointer, a rune, a byte slice
	{name: "callconv", weight: 4, prefs: []string{"any"}, ops: []string{"gfn", "gmap", "gptr", "grune", "gbytes", "gfn", "gmap", "gptr"}},
	{name: "spread", weight: 3, prefs: []string{"sliceish"}, ops: []string{"hf1", "hf2", "hfv", "hf2v", "gv", "gsum"}},
	{name: "member", weight: 3, prefs: []string{"hasmember"}, ops: []string{"get", "get", "call"}},
	{name: "deref", weight: 3, prefs: []string{"ptr"}},
	{name: "forin", weight: 3, prefs: []string{"iterable"}},
	{name: "switch", weight: 3, prefs: []string{"scalar", "scalar"}},
	{name: "if", weight: 2, prefs: []string{"truthy"}, ops: []string{"if", "elseif"}},
	{name: "forcond", weight: 2, prefs: []string{"truthy"}, ops: []string{"loop", "cfor"}},
	{name: "ternary", weight: 2, prefs: []string{"truthy"}},
	{name: "makeslice", weight: 2, prefs: []string{"num"}, ops: []string{"len", "cap"}},
	{name: "makechan", weight: 2, prefs: []string{"num"}},
	{name: "send", weight: 3, prefs: []string{"chan", "scalar"}},
	{name: "recv", weight: 3, prefs: []string{"chan"}, ops: []string{"expr", "let1", "letok"}},
	{name: "close", weight: 2, prefs: []string{"chan"}},
	{name: "delete", weight: 2, prefs: []string{"map", "key"}},
	{name: "maketype", weight: 2, prefs: []string{"any"}, ops: []string{"make", "typeof", "slice"}},
	{name: "delvar", weight: 2, prefs: []string{"str", "bool"}, ops: []string{"global-flag", "name-only", "nested"}},
	{name: "throw", weight: 1, prefs: []string{"scalar"}},
	{name: "setidx", weight: 3, prefs: []string{"indexable", "key", "scalar"}},
	{name: "setmember", weight: 3, prefs: []string{"settable", "scalar"}},
	{name: "setderef", weight: 2, prefs: []string{"ptr", "scalar"}},
	{name: "defer", weight: 2, prefs: []string{"func"}},
	{name: "deferspread", weight: 2, prefs: []string{"func", "sliceish"}},
	{name: "gospread", weight: 1, prefs: []string{"func", "sliceish"}},
	{name: "go", weight: 2, prefs: []string{"func"}},
	{name: "repeat", weight: 1, prefs: []string{"num"}},
	{name: "typedlit", weight: 2, prefs: []string{"scalar"}, ops: []string{"[]int64", "[]string", "[]interface", "[]float64", "mapval", "mapkey", "[][]int64"}},
	{name: "coalesce", weight: 2, prefs: []string{"nilable", "scalar"}},
	{name: "destructure", weight: 2, prefs: []string{"sliceish"}, ops: []string{"let", "var"}},
	{name: "letmapitem", weight: 1, prefs: []string{"map", "key"}},
	// the value is what a script function returns to Go: a callback with one result, with two results (a
	// list of two is split over them), with a typed result
	{name: "cbresult", weight: 3, prefs: []string{"sliceish"}, ops: []string{"one", "two", "two", "ints"}},
}

var templateByName = map[string]*template{}
var templateDraw []string

func init() {
	for i := range templates {
		tp := &templates[i]
		templateByName[tp.name] = tp
		for k := 0; k < tp.weight; k++ {
			templateDraw = append(templateDraw, tp.name)
		}
	}
}

func (c Case) tname() string {
	if c.Op != "" {
		return c.T + ":" + c.Op
	}
	return c.T
}

// fixSlots enforces, by construction, the exclusions of the design and the
// shapes that could block.
func fixSlots(c *Case) {
	s := c.Slots
	switch c.T {
	case "go":
		// a callee with side effects must be joined: fnmut signals on hdone, fnrec does not
		if s[0].V.K == "fnrec" {
			s[0].V = Val{K: "fnmut"}
		}
	case "gospread":
		// whether the spread call is accepted is decided at the go statement; what the goroutine
		// does afterwards is not joined here, so the callee must not touch shared state
		if s[0].V.K == "fnrec" || s[0].V.K == "fnmut" {
			s[0].V = Val{K: "fn2"}
		}
	case "send", "recv":
		// excluded: sending to and receiving from a nil channel block forever
		if s[0].V.cat() == "nilchan" {
			s[0].V = Val{K: "ch_open"}
			c.Fix = "nil-channel-would-block|" + c.T
		}
		// `x <- c` with a channel on the right receives from it
		if c.T == "send" && s[1].V.cat() == "nilchan" {
			s[1].V = Val{K: "ch_open"}
			c.Fix = "nil-channel-would-block|send-rhs"
		}
	case "forin":
		// an open channel would block after it is drained
		switch s[0].V.K {
		case "ch_open", "ch_iface":
			s[0].V = Val{K: "ch_closed"}
		}
		// excluded: ranging over a nil channel blocks forever
		if s[0].V.cat() == "nilchan" {
			s[0].V = Val{K: "ch_closed"}
			c.Fix = "nil-channel-would-block|" + c.T
		}
	case "setidx":
		// excluded: string element store and append-at-len need a variable to
		// re-assign; with a slice the index must be a scalar whose integer value is
		// not len(x)
		if s[0].V.K == "str" {
			s[0].V = Val{K: "sl_ints"}
		}
		if s[0].V.K == "mp_nil" {
			// excluded: a store into a nil map creates the map and re-assigns the variable
			s[0].V = Val{K: "mp_t_si"}
		}
		if cp, ok := compoundByName[s[0].V.K]; ok && cp.ln >= 0 {
			n, isScalar := s[1].V.approxInt()
			if !isScalar || n == int64(cp.ln) {
				s[1].V = Val{K: "int", I: int64(cp.ln) - 1}
			}
		}
		// a pointer to a slice is dereferenced by nothing here, fine
	case "setmember":
		// excluded: field store into a struct VALUE (a copy when it comes out of a
		// container; Go refuses that too) needs a variable
		if s[0].V.cat() == "struct" {
			s[0].V = Val{K: "pt_struct"}
		}
		if s[0].V.K == "mp_nil" {
			s[0].V = Val{K: "mp_t_si"}
		}
	}
}

func genCase(t *rapid.T) Case {
	tp := templateByName[pick(t, "template", templateDraw)]
	c := Case{T: tp.name}
	if len(tp.ops) > 0 {
		c.Op = pick(t, "op", tp.ops)
	}
	prefs := tp.prefs
	nearPair := false
	switch c.T {
	case "bin":
		switch c.Op {
		case "&&", "||":
			prefs = []string{"truthy", "truthy"}
		case "==", "!=":
			prefs = []string{"any", "any"}
			if rapid.IntRange(0, 3).Draw(t, "nearpair") == 0 {
				nearPair = true
			}
		case "<", "<=", ">", ">=":
			if rapid.IntRange(0, 3).Draw(t, "nearpair") == 0 {
				nearPair = true
			}
		case "+":
			if rapid.Bool().Draw(t, "plus-slices") {
				prefs = []string{"sliceish", "any"}
			}
		}
	case "slice":
		if c.Op != "b:e" {
			prefs = prefs[:2]
		}
	case "in":
		if c.Op == "lit" {
			prefs = prefs[:1]
		}
	case "callarg":
		if c.Op == "gi" || c.Op == "gs" {
			prefs = prefs[:1]
		}
	case "call", "defer", "go":
		c.N = rapid.IntRange(0, 2).Draw(t, "nargs")
	case "member", "setmember":
		c.Name = pick(t, "member", memberNames)
	case "delvar":
		if c.Op == "name-only" {
			prefs = prefs[:1]
		}
	}
	c.Slots = make([]Slot, len(prefs))
	for i, p := range prefs {
		c.Slots[i].V = genVal(t, p)
	}
	if nearPair {
		// neighbouring integers, half of them beyond 2^53 where they collapse to one float64
		v := rapid.Int64Range(-3, 3).Draw(t, "nearsmall")
		if rapid.Bool().Draw(t, "nearhuge") {
			v = pick(t, "nearbase", []int64{1 << 53, 1<<53 + 1, -(1 << 53), 1 << 54, 1<<60 + 1, 1 << 62, math.MaxInt64 - 1, math.MinInt64 + 1})
		}
		c.Slots[0].V = Val{K: "int", I: v}
		c.Slots[1].V = Val{K: "int", I: v + rapid.Int64Range(-1, 1).Draw(t, "neardelta")}
	}
	if c.T == "delvar" && rapid.IntRange(0, 3).Draw(t, "delname") > 0 {
		c.Slots[0].V = Val{K: "str", S: "hv"}
	}
	fixSlots(&c)
	any := false
	for i := range c.Slots {
		c.Slots[i].Chain = genChain(t, c.Slots[i].V, false)
		any = any || len(c.Slots[i].Chain) > 0
	}
	if !any {
		i := rapid.IntRange(0, len(c.Slots)-1).Draw(t, "forced-slot")
		c.Slots[i].Chain = genChain(t, c.Slots[i].V, true)
	}
	return c
}

// ---------------------------------------------------------------- rendering

const prelude = `hdone = make(chan int64, 16)
hcnt = [0]
hacc = []
hseen = {}
hn = 0
r = nil
rv = nil
rok = nil
ra = nil
rb = nil
hf1 = func(a){ return a }
hf2 = func(a, b){ return [a, b] }
hfv = func(a...){ return a }
hf2v = func(a, b...){ return [a, b] }
`

var stateNames = []string{"hdone", "hcnt", "hacc", "hseen", "hn", "r", "rv", "rok", "ra", "rb"}

var litArgs = []string{"1", `"a"`, "2.5"}

// slotExpr renders slot i; with chained == false (or an empty chain) it is the
// bare prelude variable. Struct-field hops need statements, appended to pre.
func slotExpr(i int, s Slot, chained bool, pre *[]string) string {
	e := fmt.Sprintf("v%d", i)
	if !chained {
		return e
	}
	for j, hp := range s.Chain {
		switch hp {
		case "elem":
			e = "[" + e + "][0]"
		case "mapidx":
			e = `{"k": ` + e + `}["k"]`
		case "mapdot":
			e = `{"k": ` + e + `}.k`
		case "call":
			e = "func(){ return " + e + " }()"
		case "id":
			e = "id(" + e + ")"
		case "paren":
			e = "(" + e + ")"
		case "tern":
			e = "(true ? " + e + " : nil)"
		case "coal":
			e = "(nil ?? " + e + ")"
		case "sfield_i", "sfield_t":
			ft := "interface"
			if hp == "sfield_t" {
				ft = s.V.fieldType()
			}
			sv := fmt.Sprintf("s%d_%d", i, j)
			*pre = append(*pre, sv+" = make(struct{F "+ft+"})", sv+".F = "+e)
			e = sv + ".F"
		default:
			panic("unknown hop " + hp)
		}
	}
	if strings.HasPrefix(e, "{") {
		// a map literal at the head of a condition or statement does not parse;
		// the parentheses are syntax only
		e = "(" + e + ")"
	}
	return e
}

// build renders the program; chained[i] selects the provenance of slot i.
func build(c Case, chained []bool) string {
	var b strings.Builder
	b.WriteString(prelude)
	var pre []string
	e := make([]string, len(c.Slots))
	for i, s := range c.Slots {
		b.WriteString(s.V.mk(fmt.Sprintf("v%d", i)))
		b.WriteString("\n")
		e[i] = slotExpr(i, s, chained[i], &pre)
	}
	for _, p := range pre {
		b.WriteString(p)
		b.WriteString("\n")
	}
	b.WriteString(body(c, e))
	b.WriteString("\n")
	return b.String()
}

func args(n int) string { return strings.Join(litArgs[:n], ", ") }

func body(c Case, e []string) string {
	switch c.T {
	case "un":
		return c.Op + e[0]
	case "bin":
		return e[0] + " " + c.Op + " " + e[1]
	case "index":
		return e[0] + "[" + e[1] + "]"
	case "slice":
		switch c.Op {
		case "b:e":
			return e[0] + "[" + e[1] + ":" + e[2] + "]"
		case "b:":
			return e[0] + "[" + e[1] + ":]"
		default:
			return e[0] + "[:" + e[1] + "]"
		}
	case "len":
		return "len(" + e[0] + ")"
	case "in":
		if c.Op == "lit" {
			return e[0] + ` in [1, "a", nil, 2.5, true, [1]]`
		}
		return e[0] + " in " + e[1]
	case "call":
		return e[0] + "(" + args(c.N) + ")"
	case "callarg":
		if c.Op == "gi" || c.Op == "gs" {
			return c.Op + "(" + e[0] + ")"
		}
		return c.Op + "(" + e[0] + ", " + e[1] + ")"
	case "callconv":
		return c.Op + "(" + e[0] + ")"
	case "spread":
		if c.Op == "hf2v" {
			return "hf2v(1, " + e[0] + "...)"
		}
		return c.Op + "(" + e[0] + "...)"
	case "member":
		if c.Op == "call" {
			return e[0] + "." + c.Name + "()"
		}
		return e[0] + "." + c.Name
	case "deref":
		return "*" + e[0]
	case "forin":
		if c.Slots[0].V.cat() == "map" {
			return "for k, v in " + e[0] + " {\nhseen[k] = v\nhn = hn + 1\n}\nhn"
		}
		return "for v in " + e[0] + " {\nhacc += [v]\nhn = hn + 1\n}\nhn"
	case "switch":
		return "switch " + e[0] + " {\ncase " + e[1] + ":\nr = 1\ncase 1, \"a\":\nr = 2\ndefault:\nr = 3\n}\nr"
	case "if":
		if c.Op == "elseif" {
			return "if false {\nr = 0\n} else if " + e[0] + " {\nr = 1\n} else {\nr = 2\n}\nr"
		}
		return "if " + e[0] + " {\nr = 1\n} else {\nr = 2\n}\nr"
	case "forcond":
		if c.Op == "cfor" {
			return "for i = 0; " + e[0] + "; i++ {\nhn = hn + 1\nbreak\n}\nhn"
		}
		return "for " + e[0] + " {\nhn = hn + 1\nbreak\n}\nhn"
	case "ternary":
		return e[0] + ` ? "yes" : "no"`
	case "makeslice":
		if c.Op == "cap" {
			return "make([]string, 1, " + e[0] + ")"
		}
		return "make([]int64, " + e[0] + ")"
	case "makechan":
		return "make(chan int64, " + e[0] + ")"
	case "send":
		return e[0] + " <- " + e[1]
	case "recv":
		switch c.Op {
		case "let1":
			return "rv = <-" + e[0]
		case "letok":
			return "rv, rok = <-" + e[0]
		}
		return "<-" + e[0]
	case "close":
		return "close(" + e[0] + ")"
	case "delete":
		return "delete(" + e[0] + ", " + e[1] + ")"
	case "maketype":
		// make(type T, v) names the dynamic type of v
		switch c.Op {
		case "typeof":
			return "r = make(type TT, " + e[0] + ")\nr"
		case "slice":
			return "make(type TT, " + e[0] + ")\nr = make([]TT, 1)\nr"
		}
		return "make(type TT, " + e[0] + ")\nr = make(TT)\nr"
	case "delvar":
		// delete("name"[, global]) removes a variable: from the current scope, or with a true second
		// operand the nearest binding; hv lives at top level, the delete runs inside a function
		switch c.Op {
		case "name-only":
			return "hv = 1\n" + "delete(" + e[0] + ")\nr = 1\ntry {\nr = hv\n} catch {\nr = \"gone\"\n}\nr"
		case "nested":
			return "hv = 1\nfunc() {\nvar hv = 2\nfunc() {\ndelete(" + e[0] + ", " + e[1] + ")\n}()\n}()\nr = 1\ntry {\nr = hv\n} catch {\nr = \"gone\"\n}\nr"
		}
		return "hv = 1\nfunc() {\ndelete(" + e[0] + ", " + e[1] + ")\n}()\nr = 1\ntry {\nr = hv\n} catch {\nr = \"gone\"\n}\nr"
	case "throw":
		return "throw " + e[0]
	case "setidx":
		return e[0] + "[" + e[1] + "] = " + e[2]
	case "setmember":
		return e[0] + "." + c.Name + " = " + e[1]
	case "setderef":
		return "*" + e[0] + " = " + e[1]
	case "defer":
		return "defer " + e[0] + "(" + args(c.N) + ")\nr = 1"
	case "deferspread":
		return "defer " + e[0] + "(" + e[1] + "...)\nr = 1"
	case "gospread":
		return "go " + e[0] + "(" + e[1] + "...)"
	case "go":
		s := "go " + e[0] + "(" + args(c.N) + ")"
		if c.Slots[0].V.K == "fnmut" {
			// join: the function signals on hdone (a function without parameters
			// ignores surplus arguments, so it runs for every N)
			s += "\n<-hdone"
		}
		return s
	case "repeat":
		return `"ab" * ` + e[0]
	case "typedlit":
		switch c.Op {
		case "mapval":
			return `map[string]int64{"k": ` + e[0] + `}`
		case "mapkey":
			return `map[string]int64{` + e[0] + `: 1}`
		}
		return c.Op + "{" + e[0] + "}"
	case "coalesce":
		return e[0] + " ?? " + e[1]
	case "destructure":
		if c.Op == "var" {
			return "var ra, rb = " + e[0] + "\n[ra, rb]"
		}
		if strings.HasSuffix(e[0], "]") {
			// `a, b = x[i]` is the "value, found" statement: keep the destructuring form
			return "ra, rb = (" + e[0] + ")"
		}
		return "ra, rb = " + e[0]
	case "letmapitem":
		return "ra, rb = " + e[0] + "[" + e[1] + "]"
	case "cbresult":
		return map[string]string{"one": "gcb1", "two": "gcb2", "ints": "gcbi"}[c.Op] + "(func() { return " + e[0] + " })"
	}
	panic("unknown template " + c.T)
}

// ---------------------------------------------------------------- running

// hostLevel is a named integer type with methods (an enum as hosts define them).
type hostLevel int64

func (l hostLevel) String() string  { return fmt.Sprintf("level-%d", int64(l)) }
func (l hostLevel) Next() hostLevel { return l + 1 }

// hostHooks is a host struct whose callback and event channel are not set.
type hostHooks struct {
	OnDone func(int64) int64
	Events chan int64
}

// hostBox is a host struct whose fields a script reads and assigns (a settings or state object).
type hostBox struct {
	I int64
	S string
	F float64
	B bool
	X interface{}
	L []int64
	M map[string]int64
	P *int64
}

func newEnv() *env.Env {
	e := env.NewEnv()
	e.Define("hbox", &hostBox{})
	e.Define("id", func(x interface{}) interface{} { return x })
	e.Define("gpair", func(a, b interface{}) []interface{} { return []interface{}{a, b} })
	e.Define("gi", func(a int64) int64 { return a + 1 })
	e.Define("gcb1", func(f func() interface{}) interface{} { return f() })
	e.Define("gcb2", func(f func() (interface{}, interface{})) []interface{} { a, b := f(); return []interface{}{a, b} })
	e.Define("gcbi", func(f func() []int64) interface{} { return f() })
	e.Define("gs", func(s []interface{}) int64 { return int64(len(s)) })
	e.Define("gv", func(xs ...interface{}) []interface{} { return append([]interface{}{int64(len(xs))}, xs...) })
	e.Define("hdur", func() interface{} { return 90 * time.Second })
	e.Define("gfn", func(f func(int64) int64) int64 { return f(3) })
	e.Define("gmap", func(m map[string]int64) int64 { return int64(len(m)) })
	e.Define("gptr", func(p *int64) int64 {
		if p == nil {
			return -1
		}
		return *p
	})
	e.Define("grune", func(r rune) int64 { return int64(r) })
	e.Define("gbytes", func(b []byte) int64 { return int64(len(b)) })
	e.Define("hdurv", 90*time.Second)
	e.Define("hlvlv", hostLevel(3))
	e.Define("hnilch", (chan int64)(nil))
	e.Define("hnilfn", (func())(nil))
	e.Define("hhooks", &hostHooks{})
	e.Define("hstrs", func() interface{} { return sort.StringSlice{"b", "a", "c"} })
	e.Define("gsum", func(xs ...int64) int64 {
		var s int64
		for _, x := range xs {
			s += x
		}
		return s
	})
	return e
}

type outcome struct {
	parseErr error // the generated program did not parse: harness defect
	err      error
	panicV   string // non-empty: a Go panic escaped
	timeout  bool
	res      string // type-tagged rendering of the result
	typ      string // dynamic type of the result
	state    string // final content of the prelude variables
}

// render is ank.Describe plus: channels are drained (content, closed flag,
// capacity) and modules list their bindings. Functions, and channels/pointers
// nested in containers, are compared by type (and pointee content) only.
func render(v interface{}, depth int) string {
	if e, ok := v.(*env.Env); ok {
		if depth > 0 {
			return "*env.Env"
		}
		syms := e.GetValueSymbols()
		sort.Strings(syms)
		parts := make([]string, 0, len(syms))
		for _, s := range syms {
			x, err := e.Get(s)
			if err != nil {
				parts = append(parts, s+"=<"+err.Error()+">")
				continue
			}
			parts = append(parts, s+"="+render(x, depth+1))
		}
		return "module{" + strings.Join(parts, ", ") + "}"
	}
	rv := reflect.ValueOf(v)
	if rv.IsValid() && rv.Kind() == reflect.Chan && !rv.IsNil() {
		var items []string
		closed := false
		for k := 0; k < 64; k++ {
			x, ok := rv.TryRecv()
			if ok {
				items = append(items, ank.Describe(x.Interface()))
				continue
			}
			closed = x.IsValid()
			break
		}
		return fmt.Sprintf("chan:%s cap=%d closed=%v [%s]", rv.Type(), rv.Cap(), closed, strings.Join(items, ", "))
	}
	return ank.Describe(v)
}

// addresses printed by fmt for channels, functions and pointers differ between
// the two envs; they are not part of the value.
var addrRE = regexp.MustCompile(`0x[0-9a-f]{6,}`)

func normAddr(s string) string { return addrRE.ReplaceAllString(s, "0xADDR") }

func typeOf(v interface{}) string {
	if v == nil {
		return "nil"
	}
	return reflect.TypeOf(v).String()
}

const runTimeout = 10 * time.Second

// exec runs a parsed program in non-debug mode, converting an escaping panic
// into *ank.HostPanic (as ank.ExecCtx does for source text).
func exec(ctx context.Context, e *env.Env, stmt ast.Stmt) (v interface{}, err error) {
	defer func() {
		if r := recover(); r != nil {
			v = nil
			err = &ank.HostPanic{Value: r}
		}
	}()
	return vm.RunContext(ctx, e, nil, stmt)
}

func run(c Case, src string) outcome {
	names := append([]string{}, stateNames...)
	for i := range c.Slots {
		names = append(names, fmt.Sprintf("v%d", i))
	}
	return runNames(src, names)
}

// runNames runs src in a fresh env and renders the result and the final content of the named variables.
func runNames(src string, names []string) outcome {
	return runNamesIn(newEnv, src, names)
}

// runNamesIn is runNames with the env made by mk (called after the source parsed).
func runNamesIn(mk func() *env.Env, src string, names []string) outcome {
	stmt, perr := parser.ParseSrc(src)
	if perr != nil {
		return outcome{parseErr: perr}
	}
	e := mk()
	ctx, cancel := context.WithTimeout(context.Background(), runTimeout)
	defer cancel()
	v, err := exec(ctx, e, stmt)
	var out outcome
	if hp, ok := ank.IsHostPanic(err); ok {
		out.panicV = ank.NormPanic(hp.Value)
		return out
	}
	if err == vm.ErrInterrupt || ctx.Err() != nil {
		out.timeout = true
		return out
	}
	out.err = err
	// the result first (rendering a channel result drains it), then the state
	var sb strings.Builder
	if err == nil {
		out.typ = typeOf(v)
		out.res = normAddr(render(v, 0))
	}
	for _, n := range names {
		x, gerr := e.Get(n)
		if gerr != nil {
			sb.WriteString(n + " = <undefined>\n")
			continue
		}
		sb.WriteString(n + " = " + render(x, 0) + "\n")
	}
	out.state = normAddr(sb.String())
	return out
}

// compare returns the violated clause ("" = the two outcomes agree).
func compare(b, x outcome) (clause, detail string) {
	switch {
	case b.err == nil && x.err != nil:
		return "spurious-error", fmt.Sprintf("baseline succeeded with %s, chained failed: %v", b.res, x.err)
	case b.err != nil && x.err == nil:
		return "missing-error", fmt.Sprintf("baseline failed: %v, chained succeeded with %s", b.err, x.res)
	}
	if b.err == nil {
		if b.typ != x.typ {
			return "type", fmt.Sprintf("baseline result %s, chained result %s", b.res, x.res)
		}
		if b.res != x.res {
			return "value", fmt.Sprintf("baseline result %s, chained result %s", b.res, x.res)
		}
	}
	if b.state != x.state {
		return "state", fmt.Sprintf("final prelude variables differ\nbaseline:\n%schained:\n%s", b.state, x.state)
	}
	return "", ""
}

func mask(n int, f func(i int) bool) []bool {
	m := make([]bool, n)
	for i := range m {
		m[i] = f(i)
	}
	return m
}

func lastHop(s Slot) string {
	if len(s.Chain) == 0 {
		return "var"
	}
	return s.Chain[len(s.Chain)-1]
}

// errMsg strips the position-independent message of an anko error.
func errMsg(err error) string {
	if err == nil {
		return ""
	}
	return normAddr(err.Error())
}

var ctxRef *h.Ctx

func oracle(c Case, o *h.Obs) *h.Fail {
	n := len(c.Slots)
	baseSrc := build(c, mask(n, func(int) bool { return false }))
	chSrc := build(c, mask(n, func(int) bool { return true }))
	o.Key = chSrc
	o.Note = c.tname() + " :: " + chSrc[len(prelude):]
	tn := c.tname()
	o.Class("tmpl:" + c.T)
	maxLen := 0
	for _, s := range c.Slots {
		o.Class("val:" + s.V.K)
		if len(s.Chain) > 0 {
			o.Class("t×h:" + tn + "|" + lastHop(s))
			if ifaceHop[lastHop(s)] {
				o.NonTrivial = true
			}
			for _, hp := range s.Chain {
				o.Class("hop:" + hp)
			}
		}
		if len(s.Chain) > maxLen {
			maxLen = len(s.Chain)
		}
	}
	o.Class("chainlen:%d", maxLen)
	for i := range c.Slots {
		if knownPtrShape(c, i) {
			o.Class("ptr-through-interface|" + c.T)
		}
	}
	for i := range c.Slots {
		if nilPtrShape(c, i) {
			o.Class("typed-nil-through-interface|" + c.T)
			if nk := nilKind(c.Slots[i].V.K); nk != "" {
				o.Class("nil-" + nk + "-through-interface|" + c.T + "|" + lastIfaceHop(c.Slots[i].Chain))
			}
		}
		if nk := nilKind(c.Slots[i].V.K); nk != "" {
			o.Class("nil-" + nk + "|" + c.T)
		}
	}
	if c.Fix != "" {
		o.Class("constr:" + c.Fix)
	}

	b := run(c, baseSrc)
	x := run(c, chSrc)
	if b.parseErr != nil || x.parseErr != nil {
		perr, src := b.parseErr, baseSrc
		if perr == nil {
			perr, src = x.parseErr, chSrc
		}
		if ctxRef != nil {
			ctxRef.Incomplete("generated program does not parse (%v):\n%s", perr, src)
		}
		o.Excluded = "HARNESS_parse_error"
		return nil
	}
	if b.timeout || x.timeout {
		o.Excluded = "timeout_safety_net"
		return nil
	}
	if b.panicV != "" && x.panicV != "" {
		// a panic on the plain variable form is C01's business
		o.Excluded = "host_panic_in_both"
		return nil
	}
	if b.panicV != "" || x.panicV != "" {
		which, pv := "chained", x.panicV
		if b.panicV != "" {
			which, pv = "baseline", b.panicV
		}
		hop := differingHop(c, b, "panic")
		return h.Failf("C20|panic|"+tn+"|"+hop, "a Go panic escaped from the %s program only: %s\nbaseline program:\n%s\nchained program:\n%s", which, pv, baseSrc, chSrc)
	}
	if b.err == nil {
		o.Class("outcome:success")
	} else {
		o.Class("outcome:error")
	}
	clause, detail := compare(b, x)
	if clause == "" && c.T == "throw" && c.Slots[0].V.isScalar() && b.err != nil && errMsg(b.err) != errMsg(x.err) {
		// the message of a thrown scalar is its value
		clause, detail = "throw-message", fmt.Sprintf("baseline error %q, chained error %q", errMsg(b.err), errMsg(x.err))
	}
	if clause == "" {
		if b.err != nil && errMsg(b.err) != errMsg(x.err) {
			o.Class("soft:error-message-differs|" + c.T)
		}
		return nil
	}
	hop := differingHop(c, b, clause)
	for i := range c.Slots {
		if nilPtrShape(c, i) && (hop == lastHop(c.Slots[i]) || strings.HasPrefix(hop, fmt.Sprintf("slot%d:", i))) {
			sig := "C20|typed-nil-through-interface-not-nil|isNil"
			if nk := nilKind(c.Slots[i].V.K); nk != "" {
				// a nil test that looks through the interface value for some kinds only
				sig += "|" + nk
			}
			return h.Failf(sig, "%s (template %s, last hop %s)\nbaseline program:\n%s\nchained program:\n%s", detail, tn, hop, baseSrc[len(prelude):], chSrc[len(prelude):])
		}
	}
	for i := range c.Slots {
		if knownPtrShape(c, i) && (hop == lastHop(c.Slots[i]) || strings.HasPrefix(hop, fmt.Sprintf("slot%d:", i))) {
			// the known finding gets its own signature, one per conversion routine
			// at fault; anything else keeps the generic one
			return h.Failf("C20|ptr-through-interface-not-dereferenced|"+knownConv[c.T], "%s (template %s, last hop %s)\nbaseline program:\n%s\nchained program:\n%s", detail, tn, hop, baseSrc[len(prelude):], chSrc[len(prelude):])
		}
	}
	return h.Failf("C20|"+clause+"|"+tn+"|"+hop, "%s\nbaseline program:\n%s\nchained program:\n%s", detail, baseSrc[len(prelude):], chSrc[len(prelude):])
}

// differingHop finds the slot whose chain alone reproduces the clause and
// returns its last hop.
func differingHop(c Case, b outcome, clause string) string {
	n := len(c.Slots)
	var chainedSlots []int
	for i, s := range c.Slots {
		if len(s.Chain) > 0 {
			chainedSlots = append(chainedSlots, i)
		}
	}
	if len(chainedSlots) == 1 {
		return lastHop(c.Slots[chainedSlots[0]])
	}
	for _, i := range chainedSlots {
		src := build(c, mask(n, func(k int) bool { return k == i }))
		x := run(c, src)
		got := ""
		switch {
		case x.timeout, x.parseErr != nil:
		case x.panicV != "" || b.panicV != "":
			if (x.panicV != "") != (b.panicV != "") {
				got = "panic"
			}
		default:
			got, _ = compare(b, x)
		}
		if got == clause {
			return fmt.Sprintf("slot%d:%s", i, lastHop(c.Slots[i]))
		}
	}
	var hs []string
	for _, i := range chainedSlots {
		hs = append(hs, lastHop(c.Slots[i]))
	}
	return "multi:" + strings.Join(hs, "+")
}

const rule = "case = (template, operand value per slot, provenance chain per slot); templates: unary - ! ^, 17 binary operators, x[i], x[i:j], len, in, call, call argument, spread call, member, deref, for-in, switch subject/case, if/else-if, for condition, ternary, make sizes, send, receive (3 forms), close, delete, throw, x[i]=v, x.k=v, *x=v, defer, go, string repeat, typed literal element/key, ??, destructuring let/var, `a, b = m[k]`; values: nil, bools, ints (small or >=2^53), floats, strings, untyped/typed slices and maps incl. a nil typed slice and a nil typed map, pointers (new(T), &v, typed nil pointer), channels (buffered, never blocking), a nil channel (script-made, host variable, unset field of a host struct), script functions, a nil function (host variable, unset callback field of a host struct), struct values, a module; every value is created once in a prelude variable, the baseline uses the variable, the chained program routes it through 1..3 hops of {slice element, map entry [k] and .k, script call, Go id(), parentheses, ternary, ??, struct field typed interface or typed as the value}; excluded by construction: append-at-len and string element store, element/member store into a nil map, field store into a struct value, x++/x+=, &x, nil maps, for-in over an open channel, send to / receive from / for-in over a nil channel (they block forever; counted as constr:nil-channel-would-block); non-trivial = at least one slot's LAST hop is slice element, map entry, script call, Go call or interface-typed struct field (no template is a plain assignment); distinct by chained source text"

func TestC20(t *testing.T) {
	c := h.New(t, "C20")
	defer c.Finish()
	ctxRef = c
	c.Rule(rule)
	h.Run(c, "provenance", c.N(40000, 400000), genCase, oracle)
	runHeld(c)
	runComputed(c)
	runAlias(c)
}
