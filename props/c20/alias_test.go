// C20, sub-check `alias` (added after the eighth round): a value that is bound to a new name is the same
// object - or the same kind of copy - wherever it was obtained from.
//
// The provenance sub-check has no template that is a plain assignment, and `held` overwrites the PLACE a value
// came from. Neither looks at the identity of the value after it was bound: a module is copied by `=` and `var`
// (the new name gets its own module), a slice / map / pointer / channel / closure is shared (both names reach the
// same storage). Whether the interpreter copies or shares is decided by looking at the value, and a value that
// arrives interface-held (list element, Go result, ...) must be recognised like the same value read from a variable.
//
// A case is (value with identity, provenance chain of 1..3 hops, binder, writes). The value is made once in v0.
// The baseline program binds the bare variable (`n = v0`), the chained program the routed value (`n = [v0][0]`);
// then something is written through the new name and / or through the old one (a member, an element, the pointee,
// a send, a call of a function of the module, of a counting closure), and both names are read. Both programs must
// agree on error-or-success, on the reads and on the final content of v0 and of the new name.
package c20

import (
	"fmt"
	"strings"

	"github.com/mattn/anko/env"
	"pgregory.net/rapid"

	"verif/internal/h"
)

// ACase is one case of the alias sub-check.
type ACase struct {
	V      string   `json:"v"`      // value kind (aliasVals)
	Chain  []string `json:"chain"`  // hops, innermost first
	Binder string   `json:"binder"` // how the routed value is bound to the new name
	Dir    string   `json:"dir"`    // new, old, both, oldnew: through which name(s) is written, in which order
	WN     int      `json:"wn"`     // write form used through the new name
	WO     int      `json:"wo"`     // write form used through the old name
	// Fix names the substitution the generator made to stay inside the domain ("" = none); counted as class
	// "alias:constr:<Fix>"
	Fix string `json:"fix,omitempty"`
}

// ---------------------------------------------------------------- values

type aliasVal struct {
	name   string
	cat    string   // mod (copied by = and var), ref (shared), o1 (struct / array values: observation O1)
	mk     string   // prelude statements, $ = variable name
	typ    string   // anko type name usable as a struct field / element type ("" = none)
	writes []string // statements writing through name $; # = the number written
	reads  []string // expressions reading through name $
}

var aliasVals = []aliasVal{
	{name: "mod", cat: "mod", mk: "module $ {\na = 1\nb = \"s\"\nfunc f() { return a }\nfunc seta(x) { a = x }\n}",
		writes: []string{"$.a = #", "$.a = #", `$.b = "w#"`, "$.seta(#)"}, reads: []string{"$.a", "$.b", "$.f()"}},
	{name: "mod_sub", cat: "mod", mk: "module $ {\na = 1\nmodule sub {\ny = 1\n}\n}",
		writes: []string{"$.a = #", "$.sub.y = #", "$.sub = #"}, reads: []string{"$.a", "$.sub"}},
	{name: "mod_list", cat: "mod", mk: "module $ {\nl = [1, 2]\nm = {\"k\": 1}\n}",
		writes: []string{"$.l[0] = #", "$.l = [#]", "$.m.k = #", "$.m = #"}, reads: []string{"$.l", "$.m"}},
	{name: "sl_ints", cat: "ref", mk: "$ = [1, 2, 3]", typ: "[]interface", writes: []string{"$[0] = #", "$[2] = #"}, reads: []string{"$[0]", "len($)"}},
	{name: "sl_t_int64", cat: "ref", mk: "$ = []int64{4, 5, 6}", typ: "[]int64", writes: []string{"$[0] = #", "$[1] = #"}, reads: []string{"$[0]", "$[1]"}},
	{name: "sl_nested", cat: "ref", mk: "$ = [[1, 2], [3]]", typ: "[]interface", writes: []string{"$[0][0] = #", "$[1] = #"}, reads: []string{"$[0]", "$[1]"}},
	{name: "sl_of_mod", cat: "ref", mk: "module m$ {\na = 1\n}\n$ = [m$]", typ: "[]interface", writes: []string{"$[0].a = #", "$[0] = #"}, reads: []string{"len($)"}},
	{name: "mp_str", cat: "ref", mk: `$ = {"k": 1, "a": "b"}`, typ: "map[interface]interface", writes: []string{"$.k = #", `$["t"] = #`, `delete($, "a")`}, reads: []string{"$.k", "len($)"}},
	{name: "mp_t_si", cat: "ref", mk: `$ = map[string]int64{"k": 1, "z": 26}`, typ: "map[string]int64", writes: []string{"$.k = #", `$["t"] = #`, `delete($, "z")`}, reads: []string{"$.k", "len($)"}},
	{name: "mp_nested", cat: "ref", mk: `$ = {"k": [1, 2], "m": {"k": 3}}`, typ: "map[interface]interface", writes: []string{"$.m.k = #", "$.k[0] = #"}, reads: []string{"$.m", "$.k"}},
	{name: "pt_int5", cat: "ref", mk: "$ = new(int64)\n*$ = 5", typ: "*int64", writes: []string{"*$ = #"}, reads: []string{"*$"}},
	{name: "pt_iface", cat: "ref", mk: "w$ = 3\n$ = &w$", writes: []string{"*$ = #"}, reads: []string{"*$"}},
	{name: "pt_struct", cat: "ref", mk: "$ = new(struct{A int64, B string})\n$.A = 4", writes: []string{"$.A = #", `$.B = "w#"`}, reads: []string{"$.A", "$.B"}},
	{name: "ch_open", cat: "ref", mk: "$ = make(chan int64, 8)\n$ <- 10\n$ <- 20\n$ <- 30", typ: "chan int64", writes: []string{"$ <- #", "<-$"}, reads: []string{"len($)"}},
	{name: "fn_counter", cat: "ref", mk: "$ = func() {\ncnt = 0\nreturn func() {\ncnt++\nreturn cnt\n}\n}()", writes: []string{"$()"}, reads: []string{"$()"}},
	{name: "hbox", cat: "ref", mk: "$ = hbox", writes: []string{"$.I = #", `$.S = "w#"`, "$.X = #"}, reads: []string{"$.I", "$.S", "$.X"}},
	{name: "named_strs", cat: "ref", mk: "$ = hstrs()", writes: []string{`$[0] = "z#"`}, reads: []string{"$[0]", "$.Len()"}},
	// struct and array VALUES: where the copy is made depends on the route today (observation O1); they are only
	// generated by the exploration aid
	{name: "st_val", cat: "o1", mk: "$ = make(struct{A int64, B string})\n$.A = 3", writes: []string{"$.A = #"}, reads: []string{"$.A"}},
	{name: "st_host", cat: "o1", mk: "$ = hboxv", writes: []string{"$.I = #"}, reads: []string{"$.I"}},
	{name: "arr_host", cat: "o1", mk: "$ = harr", writes: []string{"$[0] = #"}, reads: []string{"$[0]"}},
}

var aliasValByName = map[string]*aliasVal{}

// the draw: modules get the largest share (they are the values the binder has to recognise)
var aliasValDraw = []string{"mod", "mod", "mod", "mod", "mod_sub", "mod_sub", "mod_list", "mod_list",
	"sl_ints", "sl_t_int64", "sl_nested", "sl_of_mod", "mp_str", "mp_t_si", "mp_nested", "pt_int5", "pt_iface", "pt_struct",
	"ch_open", "fn_counter", "hbox", "named_strs"}

func init() {
	for i := range aliasVals {
		aliasValByName[aliasVals[i].name] = &aliasVals[i]
	}
}

func (v *aliasVal) fill(s, name string, num int) string {
	s = strings.ReplaceAll(s, "$", name)
	return strings.ReplaceAll(s, "#", fmt.Sprint(num))
}

// ---------------------------------------------------------------- hops

// the hops of the provenance sub-check and the places of `held` that can be spelled as one expression after some
// statements: element of a made slice, pointee of &variable, module member, field of a host struct, channel item,
// variadic parameter, element of a Go function's result, result of a callback handed to Go.
var aliasHops = []string{"elem", "elem", "elem", "mapidx", "mapdot", "call", "id", "id", "id", "paren", "tern", "coal", "sfield_i", "sfield_t",
	"tslice", "tmapx", "deref", "modmember", "hboxx", "chrecv", "variadic", "gpair", "cb", "sfn"}

// storeHop: the hop puts the value into a place with an assignment statement. Assigning a module copies it, so
// for a module such a chain reaches ANOTHER module than v0.
var storeHop = map[string]bool{"sfield_i": true, "sfield_t": true, "tslice": true, "tmapx": true, "deref": true, "modmember": true, "hboxx": true}

// aliasIface is effIface for the hops of this sub-check.
func aliasIface(chain []string) bool {
	st := false
	for _, hp := range chain {
		switch hp {
		case "elem", "id", "sfield_i", "tslice", "hboxx", "chrecv", "variadic", "gpair", "cb", "deref":
			st = true
		case "mapidx", "mapdot", "sfield_t", "tmapx", "modmember":
			st = false
		}
	}
	return st
}

// aliasExpr renders the chain over v0; statements the hops need go to pre.
func aliasExpr(v *aliasVal, chain []string, pre *[]string) string {
	e := "v0"
	for j, hp := range chain {
		switch hp {
		case "elem":
			e = "[" + e + "][0]"
		case "mapidx":
			e = `{"k": ` + e + `}["k"]`
		case "mapdot":
			e = `{"k": ` + e + `}.k`
		case "call":
			e = "func(){ return " + e + " }()"
		case "sfn":
			fn := fmt.Sprintf("hget%d", j)
			*pre = append(*pre, "func "+fn+"() { return "+e+" }")
			e = fn + "()"
		case "id":
			e = "id(" + e + ")"
		case "paren":
			e = "(" + e + ")"
		case "tern":
			e = "(true ? " + e + " : nil)"
		case "coal":
			e = "(nil ?? " + e + ")"
		case "variadic":
			e = "func(q...){ return q[0] }(" + e + ")"
		case "gpair":
			e = "gpair(0, " + e + ")[1]"
		case "cb":
			e = "gcb1(func(){ return " + e + " })"
		case "sfield_i", "sfield_t":
			ft := "interface"
			if hp == "sfield_t" && v.typ != "" {
				ft = v.typ
			}
			sv := fmt.Sprintf("s%d", j)
			*pre = append(*pre, sv+" = make(struct{F "+ft+"})", sv+".F = "+e)
			e = sv + ".F"
		case "tslice":
			sv := fmt.Sprintf("t%d", j)
			*pre = append(*pre, sv+" = make([]interface, 2)", sv+"[1] = "+e)
			e = sv + "[1]"
		case "tmapx":
			sv := fmt.Sprintf("tm%d", j)
			*pre = append(*pre, sv+" = map[string]interface{}", sv+`["k"] = `+e)
			e = sv + `["k"]`
		case "deref":
			sv := fmt.Sprintf("d%d", j)
			*pre = append(*pre, sv+" = "+e, "p"+sv+" = &"+sv)
			e = "(*p" + sv + ")"
		case "modmember":
			sv := fmt.Sprintf("hm%d", j)
			*pre = append(*pre, "module "+sv+" {\nz = nil\n}", sv+".z = "+e)
			e = sv + ".z"
		case "hboxx":
			// another host struct than the value `hbox`
			*pre = append(*pre, "hbox2.X = "+e)
			e = "hbox2.X"
		case "chrecv":
			sv := fmt.Sprintf("c%d", j)
			*pre = append(*pre, sv+" = make(chan interface, 1)", sv+" <- "+e)
			e = "(<-" + sv + ")"
		default:
			panic("unknown hop " + hp)
		}
	}
	if strings.HasPrefix(e, "{") {
		e = "(" + e + ")"
	}
	return e
}

// ---------------------------------------------------------------- binders

// copying binders: `=` and `var` in every position (a module gets its own copy)
var aliasCopyBinders = []string{"let", "let", "letexisting", "var", "var", "let2first", "let2second", "var2first", "var2second",
	"infunclet", "infuncvar", "forinitlet", "forinitvar", "storeelem", "storeentry", "ret"}

// sharing binders: parameters, destructuring, for-in variable, `x, ok = c[k]`, the receive statement `x = <-c`
var aliasShareBinders = []string{"chan", "param", "paramanon", "paramsecond", "variadic", "closure", "destructlet", "destructvar", "forin", "letitem",
	"goparam", "deferparam"}

var aliasBinderCopies = map[string]bool{}

var pointerLike = map[string]bool{"mod": true, "mod_sub": true, "mod_list": true, "pt_int5": true, "pt_iface": true, "pt_struct": true, "hbox": true}

// binders whose statement would become the receive statement `x = <-c` if the routed value were spelled `<-c`
var receiveStmtBinder = map[string]bool{"let": true, "letexisting": true, "infunclet": true, "forinitlet": true, "storeelem": true, "storeentry": true}

func init() {
	for _, b := range aliasCopyBinders {
		aliasBinderCopies[b] = true
	}
}

// aliasBind renders the binder: E is evaluated exactly once; inner(N) are the statements that run while the new
// name N is in scope. The new name ends in the global n (nil for the binders whose name lives in another
// goroutine / a deferred call).
func aliasBind(b, E string, inner func(N string) []string) []string {
	var out []string
	add := func(l ...string) { out = append(out, l...) }
	switch b {
	case "let":
		add("n = " + E)
		add(inner("n")...)
	case "letexisting":
		add("n = 0", "n = "+E)
		add(inner("n")...)
	case "var":
		add("var n = " + E)
		add(inner("n")...)
	case "let2first":
		add("n, z = " + E + ", 0")
		add(inner("n")...)
	case "let2second":
		add("z, n = 0, " + E)
		add(inner("n")...)
	case "var2first":
		add("var n, z = " + E + ", 0")
		add(inner("n")...)
	case "var2second":
		add("var z, n = 0, " + E)
		add(inner("n")...)
	case "infunclet", "infuncvar":
		add("func g() {")
		if b == "infuncvar" {
			add("var ln = " + E)
		} else {
			add("ln = " + E)
		}
		add(inner("ln")...)
		add("return ln", "}", "n = g()")
	case "forinitlet", "forinitvar":
		if b == "forinitvar" {
			add("for var ln = " + E + "; hn < 1; hn++ {")
		} else {
			add("for ln = " + E + "; hn < 1; hn++ {")
		}
		add(inner("ln")...)
		add("n = ln", "}")
	case "storeelem":
		add("hl = [0]", "hl[0] = "+E, "n = hl[0]")
		add(inner("n")...)
	case "storeentry":
		add("hm = {}", "hm.k = "+E, "n = hm.k")
		add(inner("n")...)
	case "ret":
		add("func g() {", "return "+E, "}", "n = g()")
		add(inner("n")...)
	case "chan":
		add("hch = make(chan interface, 1)", "hch <- "+E, "n = <-hch")
		add(inner("n")...)
	case "param":
		add("func g(q) {")
		add(inner("q")...)
		add("return q", "}", "n = g("+E+")")
	case "paramanon":
		add("n = func(q) {")
		add(inner("q")...)
		add("return q", "}("+E+")")
	case "paramsecond":
		add("func g(o, q) {")
		add(inner("q")...)
		add("return q", "}", "n = g(0, "+E+")")
	case "variadic":
		add("func g(qs...) {")
		add(inner("qs[0]")...)
		add("return qs[0]", "}", "n = g("+E+")")
	case "closure":
		add("func mk(q) {", "return func() {")
		add(inner("q")...)
		add("return q", "}", "}", "hc = mk("+E+")", "n = hc()")
	case "destructlet":
		add("n, z = [" + E + ", 0]")
		add(inner("n")...)
	case "destructvar":
		add("var n, z = [" + E + ", 0]")
		add(inner("n")...)
	case "forin":
		add("n = nil", "for q in ["+E+"] {")
		add(inner("q")...)
		add("n = q", "}")
	case "letitem":
		add("hl = ["+E+"]", "n, ok = hl[0]")
		add(inner("n")...)
	case "goparam":
		// joined also when a statement of the goroutine fails
		add("n = nil", "go func(q) {", "try {")
		add(inner("q")...)
		add("} catch e {", "r = \"failed\"", "}", "hdone <- 1", "}("+E+")", "<-hdone")
	case "deferparam":
		add("n = nil", "func g() {", "defer func(q) {")
		add(inner("q")...)
		add("}("+E+")", "}", "g()")
	default:
		panic("unknown binder " + b)
	}
	return out
}

// ---------------------------------------------------------------- generator

func genACase(t *rapid.T) ACase {
	c := ACase{V: pick(t, "value", aliasValDraw)}
	v := aliasValByName[c.V]
	if rapid.IntRange(0, 9).Draw(t, "copying?") < 6 {
		c.Binder = pick(t, "binder", aliasCopyBinders)
	} else {
		c.Binder = pick(t, "binder", aliasShareBinders)
	}
	n := rapid.IntRange(1, 3).Draw(t, "chainlen")
	for i := 0; i < n; i++ {
		c.Chain = append(c.Chain, pick(t, "hop", aliasHops))
	}
	c.Dir = pick(t, "dir", []string{"new", "new", "old", "both", "oldnew"})
	c.WN = rapid.IntRange(0, len(v.writes)-1).Draw(t, "wn")
	c.WO = rapid.IntRange(0, len(v.writes)-1).Draw(t, "wo")
	fixACase(&c)
	return c
}

// fixACase enforces the exclusions by construction.
func fixACase(c *ACase) {
	v := aliasValByName[c.V]
	if c.V == "ch_open" {
		// `c <- x` with a channel x receives from x and sends the item: a channel cannot travel through a channel
		for i, hp := range c.Chain {
			if hp == "chrecv" {
				c.Chain[i] = "elem"
				c.Fix = "channel-on-the-right-of-send-is-received-from"
			}
		}
		if c.Binder == "chan" {
			c.Binder = "param"
			c.Fix = "channel-on-the-right-of-send-is-received-from"
		}
	}
	if c.Binder == "forin" && pointerLike[c.V] {
		// not asserted: the for-in variable over pointer items is the pointee (observation O3); a module is a pointer
		c.Binder = "param"
		c.Fix = "for-in-variable-is-the-pointee"
	}
	if v.cat == "mod" && !aliasBinderCopies[c.Binder] {
		// a hop that STORES the module with an assignment makes a copy of it (that is what assigning a module
		// does): under a binder that shares, the new name would reach the copy, the baseline's v0 itself
		for i, hp := range c.Chain {
			if storeHop[hp] {
				c.Chain[i] = "elem"
				c.Fix = "module-store-hop-copies|sharing-binder"
			}
		}
	}
}

// ---------------------------------------------------------------- rendering

var aliasNames = []string{"v0", "n", "r", "hn"}

func abuild(c ACase, chained bool) string {
	v := aliasValByName[c.V]
	var b strings.Builder
	b.WriteString(prelude)
	b.WriteString(v.fill(v.mk, "v0", 0) + "\n")
	E := "v0"
	if chained {
		var pre []string
		E = aliasExpr(v, c.Chain, &pre)
		for _, p := range pre {
			b.WriteString(p + "\n")
		}
	}
	inner := func(N string) []string {
		wn := v.fill(v.writes[c.WN%len(v.writes)], N, 77)
		wo := v.fill(v.writes[c.WO%len(v.writes)], "v0", 78)
		var out []string
		switch c.Dir {
		case "new":
			out = append(out, wn)
		case "old":
			out = append(out, wo)
		case "both":
			out = append(out, wn, wo)
		case "oldnew":
			out = append(out, wo, wn)
		}
		var reads []string
		for _, nm := range []string{"v0", N} {
			for _, r := range v.reads {
				reads = append(reads, v.fill(r, nm, 0))
			}
		}
		out = append(out, "r = ["+strings.Join(reads, ", ")+"]")
		return out
	}
	for _, l := range aliasBind(c.Binder, E, inner) {
		b.WriteString(l + "\n")
	}
	b.WriteString("r\n")
	return b.String()
}

func newAliasEnv() *env.Env {
	e := newEnv()
	e.Define("hbox2", &hostBox{})
	e.Define("hboxv", hostBox{I: 3})
	e.Define("harr", [3]int64{1, 2, 3})
	return e
}

// ---------------------------------------------------------------- oracle

func aliasOracle(c ACase, o *h.Obs) *h.Fail {
	v := aliasValByName[c.V]
	if v == nil || len(c.Chain) == 0 {
		o.Excluded = "HARNESS_alias_bad_case"
		return nil
	}
	baseSrc := abuild(c, false)
	chSrc := abuild(c, true)
	skip := len(prelude)
	o.Key = chSrc
	o.Note = "alias " + c.V + "/" + c.Binder + " :: " + chSrc[skip:]
	last := c.Chain[len(c.Chain)-1]
	o.Class("alias:val:" + c.V)
	o.Class("alias:cat:" + v.cat)
	o.Class("alias:binder:" + c.Binder)
	o.Class("alias:dir:" + c.Dir)
	o.Class("alias:chainlen:%d", len(c.Chain))
	for _, hp := range c.Chain {
		o.Class("alias:hop:" + hp)
	}
	o.Class("alias:b×h:" + c.Binder + "|" + last)
	held := "concrete"
	if aliasIface(c.Chain) {
		held = "interface-held"
	}
	kind := "sharing-binder"
	if aliasBinderCopies[c.Binder] {
		kind = "copying-binder"
	}
	o.Class("alias:" + v.cat + "|" + kind + "|" + held)
	if v.cat == "mod" {
		o.Class("alias:mod|" + c.Binder + "|" + held)
	}
	if c.Fix != "" {
		o.Class("alias:constr:" + c.Fix)
	}
	if last == "chrecv" && receiveStmtBinder[c.Binder] {
		// `x = <-c` is the receive statement, which binds a received module itself where `x = (<-c)`, an
		// assignment, binds a copy: the received value is always parenthesised here
		o.Class("alias:constr:receive-parenthesised|" + v.cat)
	}
	b := runNamesIn(newAliasEnv, baseSrc, aliasNames)
	x := runNamesIn(newAliasEnv, chSrc, aliasNames)
	if b.parseErr != nil || x.parseErr != nil {
		perr, src := b.parseErr, baseSrc
		if perr == nil {
			perr, src = x.parseErr, chSrc
		}
		if ctxRef != nil {
			ctxRef.Incomplete("generated program does not parse (%v):\n%s", perr, src[skip:])
		}
		o.Excluded = "HARNESS_parse_error"
		return nil
	}
	if b.timeout || x.timeout {
		o.Excluded = "timeout_safety_net"
		return nil
	}
	if b.panicV != "" && x.panicV != "" {
		o.Excluded = "host_panic_in_both"
		return nil
	}
	site := v.cat + "|" + c.Binder
	progs := fmt.Sprintf("value %s, chain %v, binder %s, writes %s\nbaseline program:\n%s\nchained program:\n%s", c.V, c.Chain, c.Binder, c.Dir, baseSrc[skip:], chSrc[skip:])
	if b.panicV != "" || x.panicV != "" {
		which, pv := "chained", x.panicV
		if b.panicV != "" {
			which, pv = "baseline", b.panicV
		}
		return h.Failf("C20|alias-panic|"+site, "a Go panic escaped from the %s program only: %s\n%s", which, pv, progs)
	}
	if b.err == nil {
		o.Class("alias:outcome:success")
		o.NonTrivial = true
	} else {
		o.Class("alias:outcome:error")
		o.Class("alias:error|" + c.V + "|" + c.Binder)
	}
	clause, detail := compare(b, x)
	if clause == "" {
		return nil
	}
	// the new name reaches another object than with the bare variable (a copy where the value is shared, the
	// value itself where it is copied)
	return h.Failf("C20|bound-value-identity-depends-on-provenance|"+site, "%s: %s\n%s", clause, detail, progs)
}

const aliasRule = "alias: case = (value with identity, provenance chain of 1..3 hops, binder, writes); the value is made once in v0, the baseline binds the bare variable to a new name, the chained program the value routed through {list element, map entry [k] and .k, script call (inline, named), Go id(), parentheses, ternary, ??, struct field (interface, typed), element of a made []interface, entry of a map[string]interface, pointee of &variable, module member, interface{} field of a host struct, channel item, variadic parameter, element of a Go function's result, result of a callback handed to Go}; binders: x = / existing name / var / first or second of two targets (= and var) / local of a function (= and var) / init of a C-style for (= and var) / store into a list element or a map entry and read back / function result / channel item (a module is copied by all of these), parameter (named, anonymous, second, variadic, closure over it, of a go call, of a deferred call), destructuring (= and var), for-in variable, `x, ok = c[k]` (these share); then a write through the new name, through v0, or both in either order (a member, a new member, a call of a function of the module, an element, a nested element, an entry, delete, the pointee, a field, a send, a receive, a call of a counting closure) and reads through both names; values: modules (plain, with a sub-module, empty, holding a list and a map), untyped / typed / nested slices, a list holding a module, untyped / typed / nested maps, pointers (new, &variable, to a struct), a channel, a counting closure, a pointer to a host struct, a named host slice; both programs must agree on error-or-success, on the reads and on the final content of v0 and of the new name; excluded by construction: struct and array VALUES (observation O1), and for a module under a sharing binder the hops that store the value with an assignment statement (the store copies the module: counted as alias:constr:module-store-hop-copies); non-trivial = the baseline program succeeds; distinct by chained source text"

func runAlias(c *h.Ctx) {
	c.Rule(aliasRule)
	h.Run(c, "alias", c.N(3000, 40000), genACase, aliasOracle)
}
