package vm_test

import (
	"reflect"
	"testing"

	"github.com/mattn/anko/env"
	"github.com/mattn/anko/vm"
)

// A Go function parameter conversion failure must end the evaluation of the
// operands after it: probe "b" must not run when operand "a" cannot be
// converted to the first parameter type.
func TestC07DemoGoParamConversionStopsEvaluation(t *testing.T) {
	var log []string
	e := env.NewEnv()
	_ = e.Define("p", func(tag string, v interface{}) interface{} {
		log = append(log, tag)
		return v
	})
	called := false
	_ = e.Define("host3", func(a string, b int64, c int64) int64 {
		called = true
		return b + c
	})

	_, err := vm.Execute(e, nil, `host3(p("a", [1, 2]), p("b", 2), p("c", 3))`)
	if err == nil {
		t.Fatalf("expected a conversion error, got none (called=%v)", called)
	}
	if called {
		t.Fatalf("host3 must not be called")
	}
	want := []string{"a"}
	if !reflect.DeepEqual(log, want) {
		t.Fatalf("probe log = %v, want %v (err: %v)", log, want, err)
	}

	// sanity: the well typed call evaluates a, b, c once each in order
	log = nil
	v, err := vm.Execute(e, nil, `host3(p("a", "s"), p("b", 2), p("c", 3))`)
	if err != nil || v != int64(5) {
		t.Fatalf("unexpected result %v, %v", v, err)
	}
	if want := []string{"a", "b", "c"}; !reflect.DeepEqual(log, want) {
		t.Fatalf("probe log = %v, want %v", log, want)
	}
}
