package vm_test

import (
	"fmt"
	"reflect"
	"testing"

	"github.com/mattn/anko/env"
	"github.com/mattn/anko/vm"
)

// An unhashable map key is an error when written or deleted and reads as nil,
// also when the key value is taken out of another container (and so arrives
// wrapped in an interface value). The map must stay unchanged.
func TestC10M2UnhashableKeyFromContainer(t *testing.T) {
	wantMap := map[interface{}]interface{}{"b": int64(1)}
	tests := []struct {
		script  string
		wantErr string
		wantOut interface{}
	}{
		{`a = {"b": 1}; k = [[1, 2]]; a[k[0]] = 3`, "type []interface {} cannot be used as map key", nil},
		{`a = {"b": 1}; k = [{"x": 1}]; a[k[0]] = 3`, "type map[interface {}]interface {} cannot be used as map key", nil},
		{`a = {"b": 1}; k = [[1, 2]]; delete(a, k[0])`, "type []interface {} cannot be used as map key in delete", nil},
		{`a = {"b": 1}; k = [[1, 2]]; a[k[0]]`, "", nil},
		{`a = {"b": 1}; k = [[1, 2]]; {k[0]: 1}`, "type []interface {} cannot be used as map key", nil},
		// hashable keys taken from a container keep working
		{`a = {"b": 1}; k = ["b", nil]; a[k[0]]`, "", int64(1)},
		{`a = {"b": 1}; k = ["b", nil]; a[k[1]]`, "", nil},
	}
	for _, tt := range tests {
		func() {
			defer func() {
				if r := recover(); r != nil {
					t.Errorf("script %q: host panic: %v", tt.script, r)
				}
			}()
			e := env.NewEnv()
			out, err := vm.Execute(e, nil, tt.script)
			got := ""
			if err != nil {
				got = err.Error()
			}
			if got != tt.wantErr {
				t.Errorf("script %q: error %q, want %q", tt.script, got, tt.wantErr)
			}
			if err == nil && !reflect.DeepEqual(out, tt.wantOut) {
				t.Errorf("script %q: output %#v, want %#v", tt.script, out, tt.wantOut)
			}
			a, _ := e.Get("a")
			if !reflect.DeepEqual(a, wantMap) {
				t.Errorf("script %q: a = %s, want %s", tt.script, fmt.Sprint(a), fmt.Sprint(wantMap))
			}
		}()
	}
}
