package vm_test

import (
	"reflect"
	"testing"

	"github.com/mattn/anko/env"
	"github.com/mattn/anko/vm"
)

// && and || must evaluate only the operands their result depends on, also
// when the deciding left operand is a truthy / falsy value that is not a bool.
func TestC07DemoShortCircuitNonBool(t *testing.T) {
	tests := []struct {
		script string
		result interface{}
		log    []string
	}{
		// plain bools (unchanged behaviour)
		{`p("l", true) || p("r", true)`, true, []string{"l"}},
		{`p("l", false) && p("r", true)`, false, []string{"l"}},
		{`p("l", false) || p("r", true)`, true, []string{"l", "r"}},
		// non-bool deciding left operands
		{`p("l", 1) || p("r", false)`, true, []string{"l"}},
		{`p("l", "x") || p("r", false)`, true, []string{"l"}},
		{`p("l", [1]) || p("r", false)`, true, []string{"l"}},
		{`p("l", 0) && p("r", true)`, false, []string{"l"}},
		{`p("l", nil) && p("r", true)`, false, []string{"l"}},
		{`p("l", "") && p("r", true)`, false, []string{"l"}},
		// the usual nil guard idiom
		{`m = nil; m && p("r", m.x)`, false, nil},
		{`p("a", 0) && p("b", 1) || p("c", 2) || p("d", 3)`, true, []string{"a", "c"}},
	}
	for _, tt := range tests {
		var log []string
		e := env.NewEnv()
		_ = e.Define("p", func(tag string, v interface{}) interface{} {
			log = append(log, tag)
			return v
		})
		v, err := vm.Execute(e, nil, tt.script)
		if err != nil {
			t.Errorf("%s: unexpected error %v", tt.script, err)
			continue
		}
		if v != tt.result {
			t.Errorf("%s: result %v, want %v", tt.script, v, tt.result)
		}
		if !reflect.DeepEqual(log, tt.log) {
			t.Errorf("%s: probe log = %v, want %v", tt.script, log, tt.log)
		}
	}
}
