package vm_test

import (
	"context"
	"testing"
	"time"

	"github.com/mattn/anko/env"
	"github.com/mattn/anko/vm"
)

// Several script goroutines send on a small buffered channel, several script
// goroutines and the main script range over it. Everything is script code, so
// once the context is cancelled all of them - in particular the main script -
// have to stop, at whatever instant the cancellation lands. The run is
// repeated because the outcome depends on the interleaving of the receivers.
func TestSeedC02RangeOverSharedBufferedChannelStopsOnCancel(t *testing.T) {
	script := `
ch = make(chan int64, 1)
for i = 0; i < 4; i++ {
	go func() { for { ch <- 1 } }()
}
for i = 0; i < 2; i++ {
	go func() { for v in ch { } }()
}
close(waitChan)
for v in ch { }
`
	const trials = 400
	for i := 0; i < trials; i++ {
		e := env.NewEnv()
		waitChan := make(chan struct{})
		if err := e.Define("waitChan", waitChan); err != nil {
			t.Fatal(err)
		}
		ctx, cancel := context.WithCancel(context.Background())
		go func() {
			<-waitChan
			time.Sleep(2 * time.Millisecond)
			cancel()
		}()
		done := make(chan error, 1)
		go func() {
			_, err := vm.ExecuteContext(ctx, e, nil, script)
			done <- err
		}()
		select {
		case err := <-done:
			cancel()
			if err == nil || err.Error() != vm.ErrInterrupt.Error() {
				t.Fatalf("trial %d: got error %#v - expected %q", i, err, vm.ErrInterrupt.Error())
			}
		case <-time.After(2 * time.Second):
			cancel()
			t.Fatalf("trial %d: ExecuteContext still running 2s after its context was cancelled", i)
		}
	}
}
