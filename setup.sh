#!/bin/bash
# Builds the driver and warms the Go build cache; offline, from files on disk only.
set -e
cd "$(dirname "$0")"
export GOFLAGS=-mod=mod GOPROXY=off GOSUMDB=off GOTOOLCHAIN=local
mkdir -p bin evidence
go build -o bin/vdriver ./cmd/vdriver
# warm the cache: compile every props package (plain), race ones are compiled by their first check
for d in props/*/; do
  go test -c -vet=off -o /dev/null "./$d" >/dev/null 2>&1 || true
done
echo setup done
