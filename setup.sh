#!/bin/bash
# Builds the driver and warms the Go build cache; offline, from files on disk only.
set -e
cd "$(dirname "$0")"
export GOFLAGS=-mod=mod GOPROXY=off GOSUMDB=off GOTOOLCHAIN=local
mkdir -p bin evidence
go build -o bin/vdriver ./cmd/vdriver
# warm the cache: compile every props package once (errors are not fatal here: every check
# rebuilds what it needs and reports build problems itself)
for d in props/*/; do
  go test -c -vet=off -o /dev/null "./$d" >/dev/null 2>&1 || true
done
# the race-enabled runtime and the packages of the -race checks
for d in props/c14 props/c16; do
  go test -c -race -vet=off -o /dev/null "./$d" >/dev/null 2>&1 || true
done
# C13 is built with an overlay by its check; one throw-away build warms its -race dependencies
./check C13 quick >/dev/null 2>&1 || true
echo setup done
