package vm_test

import (
	"testing"

	"github.com/mattn/anko/env"
	"github.com/mattn/anko/vm"
)

// A string and a number are equal exactly when the string is a decimal numeral
// denoting that number; ==, !=, `in` and switch agree, in both operand orders.
func TestDemoC06StringNumberEqualityIsDecimal(t *testing.T) {
	tests := []struct {
		s    string
		n    interface{}
		want bool
	}{
		{"10", int64(10), true},
		{"010", int64(10), true},
		{"010", int64(8), false},
		{"-010", int64(-10), true},
		{"-010", int64(-8), false},
		{"0010", float64(10), true},
		{"0010", float64(8), false},
		{"08", int64(8), true},
		{"0x10", int64(16), false},
		{"0b11", int64(3), false},
		{"0o17", int64(15), false},
		{"1000", int64(1000), true},
		{"0", int64(0), true},
		{"00", int64(0), true},
	}
	run := func(e *env.Env, script string) bool {
		v, err := vm.Execute(e, nil, script)
		if err != nil {
			t.Fatalf("%s: %v", script, err)
		}
		b, ok := v.(bool)
		if !ok {
			t.Fatalf("%s: not a bool: %#v", script, v)
		}
		return b
	}
	for _, tt := range tests {
		e := env.NewEnv()
		_ = e.Define("s", tt.s)
		_ = e.Define("n", tt.n)
		checks := []struct {
			script string
			want   bool
		}{
			{"s == n", tt.want},
			{"n == s", tt.want},
			{"s != n", !tt.want},
			{"n != s", !tt.want},
			{"s in [n]", tt.want},
			{"n in [s]", tt.want},
			{"r = false; switch s { case n: r = true }; r", tt.want},
			{"r = false; switch n { case s: r = true }; r", tt.want},
		}
		for _, c := range checks {
			if got := run(e, c.script); got != c.want {
				t.Errorf("s=%q n=%v: %s is %v, want %v", tt.s, tt.n, c.script, got, c.want)
			}
		}
	}
}
