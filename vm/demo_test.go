package vm_test

import (
	"math"
	"testing"

	"github.com/mattn/anko/env"
	"github.com/mattn/anko/vm"
)

// An integer and a float are equal exactly when both <= and >= hold between them,
// in both operand orders, and != is the exact negation.
func TestDemoC06IntFloatEqualityAgreesWithOrdering(t *testing.T) {
	ints := []int64{0, 1, -1, 1 << 53, 1<<53 + 1, 1<<53 + 2, -(1<<53 + 1), math.MaxInt64, math.MaxInt64 - 1, math.MinInt64}
	floats := []float64{0, 1, -1, 1.5, 1 << 53, 1<<53 + 2, -(1 << 53), 9.223372036854775807e18, -9.223372036854775808e18, 1e19, -1e19, 1e300}

	run := func(e *env.Env, script string) bool {
		v, err := vm.Execute(e, nil, script)
		if err != nil {
			t.Fatalf("%s: %v", script, err)
		}
		b, ok := v.(bool)
		if !ok {
			t.Fatalf("%s: not a bool: %#v", script, v)
		}
		return b
	}

	for _, i := range ints {
		for _, f := range floats {
			e := env.NewEnv()
			_ = e.Define("i", i)
			_ = e.Define("f", f)
			want := run(e, "i <= f && i >= f")
			if got := run(e, "i == f"); got != want {
				t.Errorf("i=%d f=%v: i == f is %v but (i <= f && i >= f) is %v", i, f, got, want)
			}
			if got := run(e, "f == i"); got != want {
				t.Errorf("i=%d f=%v: f == i is %v but (i <= f && i >= f) is %v", i, f, got, want)
			}
			if got := run(e, "i != f"); got != !want {
				t.Errorf("i=%d f=%v: i != f is %v but (i <= f && i >= f) is %v", i, f, got, want)
			}
			if got := run(e, "i in [f]"); got != want {
				t.Errorf("i=%d f=%v: i in [f] is %v but (i <= f && i >= f) is %v", i, f, got, want)
			}
		}
	}
}
