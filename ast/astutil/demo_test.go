package astutil_test

import (
	"errors"
	"reflect"
	"testing"

	"github.com/mattn/anko/ast"
	"github.com/mattn/anko/ast/astutil"
	"github.com/mattn/anko/parser"
)

var (
	demo3PosType   = reflect.TypeOf((*ast.Pos)(nil)).Elem()
	demo3ValueType = reflect.TypeOf(reflect.Value{})
)

// demo3Collect gathers every node (pointer implementing ast.Pos) reachable from v by plain reflection.
func demo3Collect(v reflect.Value, out map[interface{}]bool) {
	switch v.Kind() {
	case reflect.Interface:
		if !v.IsNil() {
			demo3Collect(v.Elem(), out)
		}
	case reflect.Ptr:
		if v.IsNil() || !v.Type().Implements(demo3PosType) {
			return
		}
		if out[v.Interface()] {
			return
		}
		out[v.Interface()] = true
		demo3Collect(v.Elem(), out)
	case reflect.Slice:
		for i := 0; i < v.Len(); i++ {
			demo3Collect(v.Index(i), out)
		}
	case reflect.Struct:
		if v.Type() == demo3ValueType {
			return
		}
		for i := 0; i < v.NumField(); i++ {
			if v.Type().Field(i).PkgPath != "" {
				continue
			}
			demo3Collect(v.Field(i), out)
		}
	}
}

func demo3Missing(t *testing.T, stmt ast.Stmt) []interface{} {
	want := map[interface{}]bool{}
	demo3Collect(reflect.ValueOf(stmt), want)
	got := map[interface{}]bool{}
	if err := astutil.Walk(stmt, func(n interface{}) error { got[n] = true; return nil }); err != nil {
		t.Fatalf("Walk returned %v", err)
	}
	var missing []interface{}
	for n := range want {
		if !got[n] {
			missing = append(missing, n)
		}
	}
	return missing
}

// A complete walk of a tree must not depend on what earlier walks did.
// Step 1: a walk that the callback aborts half way. Step 2: a complete walk of the same tree.
func TestDemoWalkCompleteAfterAbortedWalkSameTree(t *testing.T) {
	stmt, err := parser.ParseSrc(`
total = 0
for i = 0; i < 10; i++ {
	total += weight(i) * 2
}
println(total)
`)
	if err != nil {
		t.Fatal(err)
	}
	if m := demo3Missing(t, stmt); len(m) != 0 {
		t.Fatalf("fresh walk already incomplete: %d nodes missing", len(m))
	}
	stop := errors.New("stop")
	bad := 0
	for round := 0; round < 20; round++ {
		calls := 0
		if got := astutil.Walk(stmt, func(interface{}) error {
			calls++
			if calls == 12 {
				return stop
			}
			return nil
		}); got != stop {
			t.Fatalf("aborted walk returned %v", got)
		}
		if m := demo3Missing(t, stmt); len(m) != 0 {
			bad++
			if bad == 1 {
				for _, n := range m {
					t.Errorf("round %d: after an aborted walk, node never presented: %T %+v", round, n, n)
				}
			}
		}
	}
	if bad > 0 {
		t.Errorf("%d of 20 complete walks that followed an aborted walk were incomplete", bad)
	}
}

// Same, but the complete walk is over a DIFFERENT program: the two trees only share the
// parser's literal 1 used for ++ and --.
func TestDemoWalkCompleteAfterAbortedWalkOtherTree(t *testing.T) {
	first, err := parser.ParseSrc("a = 1\na++\nb = a\nc = b\n")
	if err != nil {
		t.Fatal(err)
	}
	stop := errors.New("stop")
	bad := 0
	for round := 0; round < 20; round++ {
		// abort at the statement that follows a++ (b = a, line 3)
		if got := astutil.Walk(first, func(n interface{}) error {
			if ls, ok := n.(*ast.LetsStmt); ok && ls.Position().Line == 3 {
				return stop
			}
			return nil
		}); got != stop {
			t.Fatalf("aborted walk returned %v", got)
		}
		second, err := parser.ParseSrc("n = 5\nn--\n")
		if err != nil {
			t.Fatal(err)
		}
		if m := demo3Missing(t, second); len(m) != 0 {
			bad++
			if bad == 1 {
				for _, n := range m {
					t.Errorf("round %d: walk of a freshly parsed program never presented: %T %+v", round, n, n)
				}
			}
		}
	}
	if bad > 0 {
		t.Errorf("%d of 20 walks of a fresh program were incomplete after an unrelated aborted walk", bad)
	}
}
