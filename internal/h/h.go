// Package h is the shared harness of every property check: it drives rapid,
// collects the coverage counters that go into the evidence file, implements the
// multi-finding search loop (a recorded failure signature is excluded and the
// search continues) and the rapid-free replay path.
//
// A check is a pair (generator, oracle) over a JSON-serialisable case type T:
//
//	h.Run(c, "name", n, gen, oracle)
//
// gen draws a T from rapid; oracle(T, *Obs) returns nil when the property held
// for that case, or a *Fail with a signature and a deterministic message.
// The same oracle is used when a case is replayed from a file.
package h

import (
	"encoding/binary"
	"encoding/json"
	"flag"
	"fmt"
	"hash/fnv"
	"os"
		"runtime/debug"
	"sort"
	"strconv"
	"strings"
	"sync"
	"testing"
	"time"

	"pgregory.net/rapid"
)

// Fail is what an oracle returns for a violated case.
type Fail struct {
	Sig string // signature: clause | site | normalised message
	Msg string // human readable, deterministic
	// NoShrink: every re-execution of the case costs seconds (a hang): the failure is recorded as
	// found, unshrunk, and the search goes on
	NoShrink bool
}

// Failf builds a Fail.
func Failf(sig, format string, args ...interface{}) *Fail {
	return &Fail{Sig: sig, Msg: fmt.Sprintf(format, args...)}
}

// Obs is filled by the oracle for every case.
type Obs struct {
	NonTrivial bool     // case is non-trivial by the property's stated rule
	Key        string   // distinctness key (defaults to the JSON of the case)
	Classes    []string // class counters to increment
	Excluded   string   // non-empty: case was excluded (resource guard etc.), counted under this name
	Note       string   // short rendering for the samples list (defaults to Key)
}

// Class adds a class label.
func (o *Obs) Class(format string, args ...interface{}) {
	if len(args) == 0 {
		o.Classes = append(o.Classes, format)
		return
	}
	o.Classes = append(o.Classes, fmt.Sprintf(format, args...))
}

// Failure is a recorded (shrunk) failing case.
type Failure struct {
	Property string          `json:"property"`
	Check    string          `json:"check"`
	Sig      string          `json:"sig"`
	Msg      string          `json:"msg"`
	Case     json.RawMessage `json:"case"`
	Seed     uint64          `json:"seed,omitempty"`
	Flaky    bool            `json:"flaky,omitempty"`
	Replay   string          `json:"replay,omitempty"` // set when the failure came from replaying this file
}

// Result is what one test-binary process writes for the driver.
type Result struct {
	Property      string           `json:"property"`
	Tier          string           `json:"tier"`
	Seed          uint64           `json:"seed"`
	Shard         int              `json:"shard"`
	Evaluations   int64            `json:"evaluations"`
	NonTrivial    int64            `json:"nontrivial_distinct"`
	Classes       map[string]int64 `json:"classes"`
	Excluded      map[string]int64 `json:"excluded"`
	ExcludedBySig map[string]int64 `json:"excluded_by_signature"`
	Samples       []interface{}    `json:"samples"`
	Failures      []Failure        `json:"failures"`
	Checks        map[string]int   `json:"checks_passed"`
	Requested     map[string]int   `json:"checks_requested"`
	Rules         []string         `json:"rules"`
	Extra         map[string]interface{} `json:"extra,omitempty"`
	Incomplete    string           `json:"incomplete,omitempty"`
	WallS         float64          `json:"wall_s"`
}

// Ctx is the per-property collector.
type Ctx struct {
	T        *testing.T
	ID       string
	Tier     string
	Seed     uint64
	Shard    int
	mu       sync.Mutex
	res      Result
	distinct map[uint64]struct{}
	excl     map[string]bool
	replays  map[string]func(json.RawMessage) (*Fail, error)
	start    time.Time
	nsamples map[string]int64
	last     *Failure
	replayMode bool
	inReplay   bool
	curCheck string
}

// ReplayMode reports whether saved cases are being replayed (committed regression
// replays run at the end of every check as well).
func (c *Ctx) ReplayMode() bool { return c.replayMode }

// InReplay reports whether the oracle is currently being run on a saved case.
func (c *Ctx) InReplay() bool { return c.inReplay }

// Thorough reports whether the thorough tier is running.
func (c *Ctx) Thorough() bool { return c.Tier == "thorough" }

// N picks the case count for the tier. VERIF_SCALE (float) scales both.
func (c *Ctx) N(quick, thorough int) int {
	n := quick
	if c.Thorough() {
		n = thorough
	}
	if s := os.Getenv("VERIF_SCALE"); s != "" {
		if f, err := strconv.ParseFloat(s, 64); err == nil && f > 0 {
			n = int(float64(n) * f)
			if n < 1 {
				n = 1
			}
		}
	}
	return n
}

// New creates the collector from the environment the driver sets.
func New(t *testing.T, id string) *Ctx {
	c := &Ctx{T: t, ID: id, Tier: os.Getenv("VERIF_TIER"), start: time.Now()}
	if c.Tier != "thorough" {
		c.Tier = "quick"
	}
	seed, _ := strconv.ParseUint(os.Getenv("VERIF_SEED"), 10, 64)
	if seed == 0 {
		seed = 0x5EED5EED
	}
	c.Seed = seed
	c.Shard, _ = strconv.Atoi(os.Getenv("VERIF_SHARD"))
	c.distinct = map[uint64]struct{}{}
	c.excl = map[string]bool{}
	c.replays = map[string]func(json.RawMessage) (*Fail, error){}
	c.res = Result{Property: id, Tier: c.Tier, Seed: seed, Shard: c.Shard,
		Classes: map[string]int64{}, Excluded: map[string]int64{}, ExcludedBySig: map[string]int64{},
		Checks: map[string]int{}, Requested: map[string]int{}, Extra: map[string]interface{}{}}
	for _, s := range strings.Split(os.Getenv("VERIF_KNOWN_SIGS"), "\x1f") {
		if s != "" {
			c.excl[s] = true
		}
	}
	c.replayMode = os.Getenv("VERIF_REPLAY") != ""
	return c
}

// Rule records the generation / non-triviality rule text of a sub-check.
func (c *Ctx) Rule(s string) { c.res.Rules = append(c.res.Rules, s) }

// Extra stores an additional coverage key.
func (c *Ctx) Extra(k string, v interface{}) {
	c.mu.Lock()
	c.res.Extra[k] = v
	c.mu.Unlock()
}

// AddClass increments a class counter outside an oracle.
func (c *Ctx) AddClass(name string, n int64) {
	c.mu.Lock()
	c.res.Classes[name] += n
	c.mu.Unlock()
}

func hash64(s string) uint64 {
	f := fnv.New64a()
	f.Write([]byte(s))
	return f.Sum64()
}

func trunc(s string, n int) string {
	if len(s) <= n {
		return s
	}
	return s[:n] + "…"
}

// Record accounts one executed case. Exposed for checks that do not go through Run.
func (c *Ctx) Record(check string, o *Obs, caseJSON func() string) {
	c.mu.Lock()
	defer c.mu.Unlock()
	c.res.Evaluations++
	if o.Excluded != "" {
		c.res.Excluded[o.Excluded]++
		return
	}
	for _, cl := range o.Classes {
		c.res.Classes[cl]++
	}
	if !o.NonTrivial {
		return
	}
	key := o.Key
	if key == "" {
		key = caseJSON()
	}
	hk := hash64(check + "\x00" + key)
	if _, ok := c.distinct[hk]; ok {
		return
	}
	c.distinct[hk] = struct{}{}
	if c.nsamples == nil {
		c.nsamples = map[string]int64{}
	}
	c.nsamples[check]++
	n := c.nsamples[check]
	// samples at fixed ordinals of each sub-check's distinct non-trivial stream
	if n <= 2 || n == 10 || n == 100 || n == 1000 || n == 10000 {
		note := o.Note
		if note == "" {
			note = key
		}
		c.res.Samples = append(c.res.Samples, map[string]interface{}{"check": check, "ordinal": n, "case": trunc(note, 700)})
	}
}

type stopSentinel struct{}

// capTB is the rapid.TB we hand to rapid.Check so that a failing check does not
// abort the whole test process.
type capTB struct {
	name   string
	failed bool
	logs   []string
}

func (t *capTB) Helper()      {}
func (t *capTB) Name() string { return t.name }
func (t *capTB) Logf(format string, args ...interface{}) {
	t.logs = append(t.logs, fmt.Sprintf(format, args...))
}
func (t *capTB) Log(args ...interface{})                  { t.logs = append(t.logs, fmt.Sprint(args...)) }
func (t *capTB) Skipf(format string, args ...interface{}) { panic(stopSentinel{}) }
func (t *capTB) Skip(args ...interface{})                 { panic(stopSentinel{}) }
func (t *capTB) SkipNow()                                 { panic(stopSentinel{}) }
func (t *capTB) Errorf(format string, args ...interface{}) {
	t.failed = true
	t.logs = append(t.logs, fmt.Sprintf(format, args...))
}
func (t *capTB) Error(args ...interface{}) { t.failed = true; t.logs = append(t.logs, fmt.Sprint(args...)) }
func (t *capTB) Fatalf(format string, args ...interface{}) {
	t.Errorf(format, args...)
	panic(stopSentinel{})
}
func (t *capTB) Fatal(args ...interface{}) { t.Error(args...); panic(stopSentinel{}) }
func (t *capTB) FailNow()                  { t.failed = true; panic(stopSentinel{}) }
func (t *capTB) Fail()                     { t.failed = true }
func (t *capTB) Failed() bool              { return t.failed }

func setFlag(name, val string) {
	if err := flag.Set(name, val); err != nil {
		panic(err)
	}
}

func mix(seed uint64, s string, round int) uint64 {
	x := seed*0x9E3779B97F4A7C15 ^ hash64(s) ^ uint64(round+1)*0xBF58476D1CE4E5B9
	x ^= x >> 31
	x *= 0x94D049BB133111EB
	x ^= x >> 29
	if x == 0 {
		x = 1
	}
	return x
}

const maxRounds = 8

// Run executes one sub-check: n generated cases against the oracle, continuing past
// each distinct failure signature (at most maxRounds of them).
func Run[T any](c *Ctx, name string, n int, gen func(*rapid.T) T, oracle func(T, *Obs) *Fail) {
	c.replays[name] = func(raw json.RawMessage) (*Fail, error) {
		var tc T
		if err := json.Unmarshal(raw, &tc); err != nil {
			return nil, err
		}
		o := &Obs{}
		return oracle(tc, o), nil
	}
	if c.replayMode {
		return
	}
	c.res.Requested[name] += n
	remaining := n
	for round := 0; round < maxRounds && remaining > 0; round++ {
		seed := mix(c.Seed+uint64(c.Shard)*1000003, name, round)
		setFlag("rapid.checks", strconv.Itoa(remaining))
		setFlag("rapid.seed", strconv.FormatUint(seed, 10))
		setFlag("rapid.nofailfile", "true")
		st := "8s"
		if c.Thorough() {
			st = "20s"
		}
		if v := os.Getenv("VERIF_SHRINKTIME"); v != "" {
			st = v
		}
		setFlag("rapid.shrinktime", st)
		tb := &capTB{name: c.ID + "_" + name}
		c.last = nil
		passed := 0
		prop := func(rt *rapid.T) {
			tc := gen(rt)
			o := &Obs{}
			f := oracle(tc, o)
			c.Record(name, o, func() string { b, _ := json.Marshal(tc); return string(b) })
			if f == nil {
				return
			}
			c.mu.Lock()
			if c.excl[f.Sig] {
				c.res.ExcludedBySig[f.Sig]++
				c.mu.Unlock()
				return
			}
			b, _ := json.Marshal(tc)
			if f.NoShrink {
				c.res.Failures = append(c.res.Failures, Failure{Property: c.ID, Check: name, Sig: f.Sig, Msg: f.Msg, Case: b, Seed: seed})
				c.excl[f.Sig] = true
				c.mu.Unlock()
				return
			}
			c.last = &Failure{Property: c.ID, Check: name, Sig: f.Sig, Msg: f.Msg, Case: b, Seed: seed}
			c.mu.Unlock()
			// the rapid-visible message is the signature only, so that shrinking may
			// move between cases with the same signature
			rt.Fatalf("%s", f.Sig)
		}
		func() {
			defer func() {
				if r := recover(); r != nil {
					if _, ok := r.(stopSentinel); !ok {
						panic(r)
					}
				}
			}()
			rapid.Check(tb, prop)
		}()
		for _, l := range tb.logs {
			var k int
			if _, err := fmt.Sscanf(l, "[rapid] OK, passed %d tests", &k); err == nil {
				passed = k
			}
			if i := strings.Index(l, "[rapid] failed after "); i >= 0 {
				fmt.Sscanf(l[i:], "[rapid] failed after %d tests", &k)
				passed = k
			}
			if i := strings.Index(l, "[rapid] panic after "); i >= 0 {
				fmt.Sscanf(l[i:], "[rapid] panic after %d tests", &k)
				passed = k
			}
		}
		c.res.Checks[name] += passed
		if !tb.failed {
			break
		}
		if c.last == nil {
			// rapid failed without our oracle failing: a panic inside generator/oracle
			// (harness bug) or invalid data. Report as incomplete, never as violation.
			c.res.Incomplete = "rapid failure without oracle failure in " + name + ": " + trunc(strings.Join(tb.logs, "\n"), 4000)
			break
		}
		f := *c.last
		for _, l := range tb.logs {
			if strings.Contains(l, "flaky test") {
				f.Flaky = true
			}
		}
		c.res.Failures = append(c.res.Failures, f)
		c.excl[f.Sig] = true
		remaining -= passed + 1
	}
}

// Violation records a failure found by a check that does not go through Run.
func (c *Ctx) Violation(check string, f *Fail, tc interface{}) {
	c.mu.Lock()
	defer c.mu.Unlock()
	if c.excl[f.Sig] {
		c.res.ExcludedBySig[f.Sig]++
		return
	}
	b, _ := json.Marshal(tc)
	c.res.Failures = append(c.res.Failures, Failure{Property: c.ID, Check: check, Sig: f.Sig, Msg: f.Msg, Case: b})
	c.excl[f.Sig] = true
}

// RegisterReplay registers a replay function for checks that do not go through Run.
func (c *Ctx) RegisterReplay(check string, fn func(json.RawMessage) (*Fail, error)) {
	c.replays[check] = fn
}

// Incomplete marks the run as inconclusive (harness problem).
func (c *Ctx) Incomplete(format string, args ...interface{}) {
	c.mu.Lock()
	if c.res.Incomplete == "" {
		c.res.Incomplete = fmt.Sprintf(format, args...)
	}
	c.mu.Unlock()
}

// Finish writes the result file for the driver (and runs replay mode).
func (c *Ctx) Finish() {
	if c.replayMode {
		c.runReplays(os.Getenv("VERIF_REPLAY"))
	} else {
		c.runReplays(os.Getenv("VERIF_REGRESS"))
	}
	c.res.NonTrivial = int64(len(c.distinct))
	c.res.WallS = time.Since(c.start).Seconds()
	out := os.Getenv("VERIF_OUT")
	if out == "" {
		b, _ := json.MarshalIndent(c.res, "", " ")
		c.T.Logf("result:\n%s", trunc(string(b), 6000))
		if len(c.res.Failures) > 0 || c.res.Incomplete != "" {
			c.T.Fail()
		}
		return
	}
	b, err := json.Marshal(c.res)
	if err != nil {
		c.T.Fatalf("marshal result: %v", err)
	}
	// distinct hashes for the cross-shard union
	hb := make([]byte, 0, 8*len(c.distinct))
	keys := make([]uint64, 0, len(c.distinct))
	for k := range c.distinct {
		keys = append(keys, k)
	}
	sort.Slice(keys, func(i, j int) bool { return keys[i] < keys[j] })
	for _, k := range keys {
		hb = binary.LittleEndian.AppendUint64(hb, k)
	}
	if err := os.WriteFile(out+".hashes", hb, 0o644); err != nil {
		c.T.Fatalf("write hashes: %v", err)
	}
	if err := os.WriteFile(out+".tmp", b, 0o644); err != nil {
		c.T.Fatalf("write result: %v", err)
	}
	if err := os.Rename(out+".tmp", out); err != nil {
		c.T.Fatalf("rename result: %v", err)
	}
}

// runReplays replays the files listed in VERIF_REPLAY (path-separated by \x1f).
func (c *Ctx) runReplays(list string) {
	c.inReplay = true
	defer func() { c.inReplay = false }()
	for _, p := range strings.Split(list, "\x1f") {
		if p == "" {
			continue
		}
		raw, err := os.ReadFile(p)
		if err != nil {
			c.Incomplete("replay %s: %v", p, err)
			continue
		}
		var f Failure
		if err := json.Unmarshal(raw, &f); err != nil {
			c.Incomplete("replay %s: %v", p, err)
			continue
		}
		fn := c.replays[f.Check]
		if fn == nil {
			c.Incomplete("replay %s: unknown check %q", p, f.Check)
			continue
		}
		var got *Fail
		func() {
			defer func() {
				if r := recover(); r != nil {
					c.Incomplete("replay %s: harness panic: %v\n%s", p, r, debug.Stack())
				}
			}()
			got, err = fn(f.Case)
		}()
		if err != nil {
			c.Incomplete("replay %s: %v", p, err)
			continue
		}
		c.res.Evaluations++
		c.res.Classes["replayed"]++
		if got != nil {
			c.res.Failures = append(c.res.Failures, Failure{Property: c.ID, Check: f.Check, Sig: got.Sig, Msg: got.Msg, Case: f.Case, Replay: p})
			c.res.Classes["replay_reproduced"]++
		}
	}
}
