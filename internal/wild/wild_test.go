package wild

import (
	"testing"

	"github.com/mattn/anko/parser"
	"pgregory.net/rapid"
)

// TestGeneratorSound: every generated program must parse (generator soundness).
func TestGeneratorSound(t *testing.T) {
	bad := 0
	rapid.Check(t, func(rt *rapid.T) {
		src := Program(rt, Opts{Loops: true, Go: true, HugeInts: true, Prelude: rapid.Bool().Draw(rt, "prelude")})
		if _, err := parser.ParseSrc(src); err != nil {
			bad++
			rt.Fatalf("does not parse: %v\n%s", err, src)
		}
	})
}
