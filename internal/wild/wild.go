// Package wild generates syntactically valid anko programs over the FULL grammar
// (profile "everything": every statement and expression production of
// parser/parser.go.y in every child position) without regard to types. It is the
// input domain of C01 (nothing may crash the host), C15 (pairs of valid programs),
// C17 (the walker must reach every node) and the tree-immutability part of C14.
//
// Soundness of the generator (only syntax the grammar accepts) is itself checked by
// its users: a generated program that does not parse is reported as a harness
// problem (inconclusive), never as a violation.
package wild

import (
	"fmt"
	"strings"

	"pgregory.net/rapid"

	"verif/internal/vals"
)

// Opts tunes the generator.
type Opts struct {
	MaxDepth   int  // nesting depth of statements/expressions
	MaxStmts   int  // statements per block
	Loops      bool // emit loop statements (all counter- or data-bounded)
	Go         bool // emit go statements
	HugeInts   bool // int literals include values >= 2^56 and the int64 limits
	Prelude    bool // start with the value-universe prelude (see Prelude)
}

// Prelude binds one variable to a value of every kind a script can construct, so that
// ill-typed operand combinations are reached often.
const Prelude = `i = 1
j = 4096
f = 1.5
s = "abc"
b = true
n = nil
l = [1, "a", nil, 2.5]
m = {"a": 1, "b": nil}
tl = make([]int64, 2)
ts = []string{"x", "y"}
tm = make(map[string]int64)
im = make(map[int64]string)
pl = make([]*int64, 1)
il = make([]interface, 1)
ll = [[1, 2], [3]]
p = new(int64)
ps = new(string)
st = make(struct{A int64, B string, C []int64})
si = make(struct{A interface, B interface})
ty = make(type T1, 1)
ch = make(chan int64, 2)
uc = make(chan interface)
fn = func(a, b) { return a }
f0 = func() { return 1 }
f5 = func(a, b, c, d, e) { return [a, b, c, d, e] }
fv = func(a...) { return a }
module mod { x = 1; func g(a) { return a } }
`

// Names bound by Prelude (plus a few that are not bound at all).
var names = []string{"i", "j", "f", "s", "b", "n", "l", "m", "tl", "ts", "tm", "im", "pl", "il", "ll", "p", "ps", "st", "si", "ty", "ch", "uc", "fn", "f0", "f5", "fv", "mod", "x", "y", "zz"}
var funcNames = []string{"fn", "f0", "f5", "fv", "id", "keys", "typeOf", "toInt", "toString", "boom", "x"}
var typeNames = []string{"int64", "string", "float64", "bool", "interface", "int", "byte", "rune", "uint64", "float32", "nosuchtype", "x"}
var members = []string{"A", "B", "C", "x", "g", "a", "Len", "zz"}

type W struct {
	t   *rapid.T
	o   Opts
	ctr int
}

func (w *W) n(lo, hi int, l string) int { return rapid.IntRange(lo, hi).Draw(w.t, l) }
func (w *W) pick(xs []string, l string) string {
	return xs[rapid.IntRange(0, len(xs)-1).Draw(w.t, l)]
}

// Program generates one program.
func Program(t *rapid.T, o Opts) string {
	if o.MaxDepth == 0 {
		o.MaxDepth = 3
	}
	if o.MaxStmts == 0 {
		o.MaxStmts = 4
	}
	w := &W{t: t, o: o}
	var b strings.Builder
	if o.Prelude {
		b.WriteString(Prelude)
	}
	n := w.n(1, o.MaxStmts+2, "nstmts")
	for k := 0; k < n; k++ {
		b.WriteString(w.stmt(0))
		b.WriteString(w.term())
	}
	return b.String()
}

// Expression generates one expression.
func Expression(t *rapid.T, o Opts) string {
	if o.MaxDepth == 0 {
		o.MaxDepth = 3
	}
	w := &W{t: t, o: o}
	return w.expr(0)
}

func (w *W) term() string {
	switch w.n(0, 5, "term") {
	case 0:
		return "; "
	case 1:
		return ";\n"
	case 2:
		return "\n\n"
	default:
		return "\n"
	}
}

func (w *W) block(d int) string {
	n := w.n(0, w.o.MaxStmts, "blockn")
	var b strings.Builder
	b.WriteString("{")
	if n == 0 && w.n(0, 1, "emptyblock") == 0 {
		b.WriteString(" }")
		return b.String()
	}
	b.WriteString("\n")
	for k := 0; k < n; k++ {
		b.WriteString(w.stmt(d + 1))
		b.WriteString(w.term())
	}
	b.WriteString("}")
	return b.String()
}

func (w *W) ident() string { return w.pick(names, "ident") }

func (w *W) idents(lo, hi int) string {
	n := w.n(lo, hi, "nidents")
	parts := make([]string, n)
	for i := range parts {
		parts[i] = w.ident()
	}
	return strings.Join(parts, ", ")
}

func (w *W) exprs(d, lo, hi int) string {
	n := w.n(lo, hi, "nexprs")
	parts := make([]string, n)
	for i := range parts {
		parts[i] = w.expr(d + 1)
	}
	return strings.Join(parts, ", ")
}

// lhs generates an assignable expression (any expression is syntactically allowed; these
// are the forms invokeLetExpr distinguishes).
func (w *W) lhs(d int) string {
	switch w.n(0, 7, "lhs") {
	case 0, 1, 2:
		return w.ident()
	case 3:
		return w.postfixable(d+1) + "." + w.pick(members, "member")
	case 4:
		return w.postfixable(d+1) + "[" + w.expr(d+1) + "]"
	case 5:
		return w.postfixable(d+1) + "[" + w.optExpr(d+1) + ":" + w.expr(d+1) + "]"
	case 6:
		return "*" + w.postfixable(d+1)
	default:
		return w.expr(d + 1)
	}
}

func (w *W) optExpr(d int) string {
	if w.n(0, 2, "opt") == 0 {
		return ""
	}
	return w.expr(d)
}

func (w *W) call(d int) string {
	var callee string
	if w.n(0, 3, "calleeform") == 0 {
		callee = w.postfixable(d + 1)
	} else {
		callee = w.pick(funcNames, "fname")
	}
	args := w.exprs(d, 0, 3)
	if w.n(0, 4, "vararg") == 0 {
		if strings.HasSuffix(args, ".") || (len(args) > 0 && args[len(args)-1] >= '0' && args[len(args)-1] <= '9') {
			args += " " // `1...` would be scanned as one number
		}
		args += "..."
	}
	return callee + "(" + args + ")"
}

func (w *W) loopGuard() (pre, guard string) {
	w.ctr++
	c := fmt.Sprintf("k%d", w.ctr)
	return "var " + c + " = 0\n", c + " = " + c + " + 1\nif " + c + " > " + fmt.Sprint(w.n(0, 3, "bound")) + " { break }\n"
}

func (w *W) stmt(d int) string {
	deep := d >= w.o.MaxDepth
	k := w.n(0, 39, "stmt")
	if deep && k >= 20 {
		k %= 20
	}
	switch k {
	case 0, 1, 2, 3:
		return w.expr(d)
	case 4, 5:
		return w.lhs(d) + " = " + w.expr(d)
	case 6:
		// multi assignment, possibly with unequal counts
		if w.n(0, 3, "mapitem") == 0 {
			// v, ok = m[k] (LetMapItemStmt)
			return w.lhs(d) + ", " + w.lhs(d) + " = " + w.postfixable(d+1) + "[" + w.expr(d+1) + "]"
		}
		nl, nr := w.n(2, 3, "nl"), w.n(1, 3, "nr") // `a = b, c` is not accepted by the grammar
		ls := make([]string, nl)
		for i := range ls {
			ls[i] = w.lhs(d)
		}
		rs := make([]string, nr)
		for i := range rs {
			rs[i] = w.expr(d + 1)
		}
		return strings.Join(ls, ", ") + " = " + strings.Join(rs, ", ")
	case 7:
		return "var " + w.idents(1, 3) + " = " + w.exprs(d, 0, 3)
	case 8:
		return w.lhs(d) + " = <- " + w.expr(d+1)
	case 9:
		return w.lhs(d) + ", " + w.lhs(d) + " = <- " + w.expr(d+1)
	case 10:
		return "return " + w.exprs(d, 0, 3)
	case 11:
		return "throw " + w.expr(d)
	case 12:
		return "delete(" + w.expr(d+1) + ")"
	case 13:
		return "delete(" + w.expr(d+1) + ", " + w.expr(d+1) + ")"
	case 14:
		return "close(" + w.expr(d+1) + ")"
	case 15:
		return "defer " + w.call(d)
	case 16:
		if w.o.Go {
			return "go " + w.call(d)
		}
		return w.call(d)
	case 17:
		return w.lhs(d) + w.pick([]string{"++", "--"}, "incdec")
	case 18:
		return w.lhs(d) + " " + w.pick([]string{"+=", "-=", "*=", "/=", "&=", "|="}, "opeq") + " " + w.expr(d+1)
	case 19:
		return w.pick([]string{"break", "continue", ""}, "brk")
	case 20, 21, 22:
		s := "if " + w.cond(d) + " " + w.block(d)
		for k := w.n(0, 2, "elifs"); k > 0; k-- {
			s += " else if " + w.cond(d) + " " + w.block(d)
		}
		if w.n(0, 1, "else") == 0 {
			s += " else " + w.block(d)
		}
		return s
	case 23, 24:
		s := "try " + w.block(d) + " catch "
		if w.n(0, 1, "catchvar") == 0 {
			s += w.ident() + " "
		}
		s += w.block(d)
		if w.n(0, 1, "finally") == 0 {
			s += " finally " + w.block(d)
		}
		return s
	case 25:
		return "module " + w.pick([]string{"mod", "m2", "x"}, "modname") + " " + w.block(d)
	case 26, 27:
		return w.switchStmt(d)
	case 28, 29, 30, 31, 32:
		if !w.o.Loops {
			return w.expr(d)
		}
		return w.loop(d)
	case 33:
		return "func " + w.pick([]string{"fn", "g1", "x"}, "fnname") + "(" + w.idents(0, 3) + w.pick([]string{"", "", "..."}, "variadic") + ") " + w.block(d)
	case 34:
		return w.ident() + " = " + w.funcLit(d)
	case 35:
		return w.call(d)
	default:
		return w.expr(d)
	}
}

func (w *W) loop(d int) string {
	switch w.n(0, 7, "loop") {
	case 0:
		pre, guard := w.loopGuard()
		return pre + "for {\n" + guard + strings.TrimPrefix(w.block(d), "{")
	case 1:
		pre, guard := w.loopGuard()
		return pre + "for " + w.cond(d) + " {\n" + guard + strings.TrimPrefix(w.block(d), "{")
	case 2:
		w.ctr++
		c := fmt.Sprintf("k%d", w.ctr)
		return "for " + c + " = 0; " + c + " < " + fmt.Sprint(w.n(0, 3, "bound")) + "; " + c + "++ " + w.block(d)
	case 3:
		// C-style loop with optional parts; body guarded
		pre, guard := w.loopGuard()
		init := w.pick([]string{"", "x = 0", "var x = 1", "var x, y = 1, 2"}, "init")
		cond := w.pick([]string{"", "x < 3", "true"}, "ccond")
		post := w.pick([]string{"", "x++", "x += 1", "y"}, "post")
		return pre + "for " + init + "; " + cond + "; " + post + " {\n" + guard + strings.TrimPrefix(w.block(d), "{")
	case 4, 5:
		return "for " + w.idents(1, 2) + " in " + w.iterable(d) + " " + w.block(d)
	default:
		return "for " + w.ident() + " in " + w.expr(d+1) + " " + w.block(d)
	}
}

func (w *W) iterable(d int) string {
	return w.pick([]string{"l", "m", "tl", "ts", "tm", "pl", "il", "ll", "[1, 2, 3]", "{\"a\": 1}", "[]", "s", "n", "i", "ch"}, "iterable")
}

func (w *W) cond(d int) string {
	// a condition directly followed by '{' must not end in something that swallows the
	// brace (a type literal): parenthesise.
	return "(" + w.expr(d+1) + ")"
}

func (w *W) switchStmt(d int) string {
	var b strings.Builder
	b.WriteString("switch " + w.cond(d) + " {\n")
	n := w.n(0, 3, "ncases")
	def := -1
	if w.n(0, 1, "hasdef") == 0 {
		def = w.n(0, n, "defpos")
	}
	for i := 0; i <= n; i++ {
		if i == def {
			b.WriteString("default:\n")
			for k := w.n(0, 2, "dn"); k > 0; k-- {
				b.WriteString(w.stmt(d+1) + "\n")
			}
		}
		if i == n {
			break
		}
		b.WriteString("case " + w.exprs(d, 1, 3) + ":\n")
		for k := w.n(0, 2, "cn"); k > 0; k-- {
			b.WriteString(w.stmt(d+1) + "\n")
		}
	}
	b.WriteString("}")
	return b.String()
}

func (w *W) funcLit(d int) string {
	return "func(" + w.idents(0, 3) + w.pick([]string{"", "", "..."}, "variadic") + ") " + w.block(d)
}

func (w *W) typeData(d int) string {
	k := w.n(0, 11, "type")
	if d >= 2 && k > 3 {
		k %= 4
	}
	switch k {
	case 0, 1, 2:
		return w.pick(typeNames, "tname")
	case 3:
		return w.pick([]string{"mod", "x", "i"}, "tenv") + "." + w.pick(typeNames, "tname")
	case 4:
		return "*" + w.typeData(d+1)
	case 5, 6:
		return strings.Repeat("[]", w.n(1, 2, "dims")) + w.typeData(d+1)
	case 7, 8:
		return "map[" + w.typeData(d+1) + "]" + w.typeData(d+1)
	case 9:
		return "chan " + w.typeData(d+1)
	default:
		n := w.n(1, 3, "nfields")
		parts := make([]string, n)
		for i := range parts {
			parts[i] = w.pick([]string{"A", "B", "C", "a", "A"}, "field") + " " + w.typeData(d+1)
		}
		return "struct{" + strings.Join(parts, ", ") + "}"
	}
}

func (w *W) intLit() string {
	if w.o.HugeInts && w.n(0, 5, "huge") == 0 {
		return w.pick([]string{"9223372036854775807", "-9223372036854775808", "72057594037927936", "4611686018427387904", "-4611686018427387904", "9223372036854775806", "0x7fffffffffffffff", "-72057594037927937"}, "hugeint")
	}
	return w.pick([]string{"0", "1", "2", "3", "5", "-1", "-2", "0x10", "0b11", "4095", "4096", "007"}, "smallint")
}

func (w *W) literal() string {
	switch w.n(0, 9, "lit") {
	case 0, 1, 2:
		return w.intLit()
	case 3:
		return w.pick([]string{"0.0", "1.5", "-2.5", "1e3", "1e-3", "2.", "1e308", "-0.0"}, "float")
	case 4, 5:
		return vals.StrLit(w.pick([]string{"", "a", "abc", "1", "1.5", "true", "héllo", "x y"}, "str"))
	case 6:
		return w.pick([]string{"'sq'", "`raw\nline`", "'a\\tb'"}, "altstr")
	case 7:
		return w.pick([]string{"true", "false"}, "bool")
	default:
		return "nil"
	}
}

// postfixable yields an expression that can be followed by a postfix operator
// without changing how it parses.
func (w *W) postfixable(d int) string {
	if d >= w.o.MaxDepth || w.n(0, 2, "pfsimple") > 0 {
		return w.ident()
	}
	return "(" + w.expr(d+1) + ")"
}

var binOps = []string{"+", "-", "*", "/", "%", "&", "|", "<<", ">>", "==", "!=", "<", "<=", ">", ">=", "&&", "||"}

func (w *W) expr(d int) string {
	k := w.n(0, 44, "expr")
	if d >= w.o.MaxDepth && k >= 8 {
		k %= 8
	}
	switch k {
	case 0, 1, 2, 3:
		return w.ident()
	case 4, 5, 6, 7:
		return w.literal()
	case 8, 9, 10, 11:
		return "(" + w.expr(d+1) + " " + w.pick(binOps, "binop") + " " + w.expr(d+1) + ")"
	case 12:
		return w.expr(d+1) + " " + w.pick(binOps, "binop") + " " + w.expr(d+1)
	case 13:
		return w.pick([]string{"-", "!", "^"}, "unop") + w.postfixable(d+1)
	case 14:
		return "&" + w.postfixable(d+1)
	case 15:
		return "*" + w.postfixable(d+1)
	case 16:
		return "(" + w.expr(d+1) + " ? " + w.expr(d+1) + " : " + w.expr(d+1) + ")"
	case 17:
		return "(" + w.expr(d+1) + " ?? " + w.expr(d+1) + ")"
	case 18, 19:
		return "[" + w.exprs(d, 0, 3) + "]"
	case 20:
		n := w.n(0, 3, "nmap")
		parts := make([]string, n)
		for i := range parts {
			parts[i] = w.expr(d+1) + ": " + w.expr(d+1)
		}
		return "{" + strings.Join(parts, ", ") + "}"
	case 21:
		n := w.n(0, 2, "nmap")
		parts := make([]string, n)
		for i := range parts {
			parts[i] = w.expr(d+1) + ": " + w.expr(d+1)
		}
		return "map[" + w.typeData(0) + "]" + w.typeData(0) + "{" + strings.Join(parts, ", ") + "}"
	case 22:
		// element types starting with '*' are not accepted in this position (`[]` is also the empty list)
		et := w.typeData(1)
		for strings.HasPrefix(et, "*") {
			et = et[1:]
		}
		return strings.Repeat("[]", w.n(1, 2, "dims")) + et + "{" + w.exprs(d, 0, 3) + "}"
	case 23, 24:
		return w.call(d)
	case 25, 26:
		return w.postfixable(d+1) + "[" + w.expr(d+1) + "]"
	case 27:
		return w.postfixable(d+1) + "[" + w.optExpr(d+1) + ":" + w.expr(d+1) + "]"
	case 28:
		return w.postfixable(d+1) + "[" + w.expr(d+1) + ":]"
	case 29:
		return w.postfixable(d+1) + "[" + w.optExpr(d+1) + ":" + w.expr(d+1) + ":" + w.expr(d+1) + "]"
	case 30, 31:
		return w.postfixable(d+1) + "." + w.pick(members, "member")
	case 32:
		return "len(" + w.expr(d+1) + ")"
	case 33:
		return "import(" + w.pick([]string{"\"strings\"", "\"nosuch\"", "s", "1", "\"sort\""}, "import") + ")"
	case 34:
		return "new(" + w.typeData(0) + ")"
	case 35:
		return "make(" + w.typeData(0) + ")"
	case 36:
		return "make(" + w.typeData(0) + ", " + w.expr(d+1) + ")"
	case 37:
		return "make(" + w.typeData(0) + ", " + w.expr(d+1) + ", " + w.expr(d+1) + ")"
	case 38:
		return "make(type " + w.pick([]string{"T1", "x", "int64"}, "mtname") + ", " + w.expr(d+1) + ")"
	case 39:
		return "(" + w.expr(d+1) + " in " + w.expr(d+1) + ")"
	case 40:
		return "(" + w.postfixable(d+1) + " <- " + w.expr(d+1) + ")"
	case 41:
		return "(<- " + w.postfixable(d+1) + ")"
	case 42:
		return w.funcLit(d)
	case 43:
		return "(" + w.funcLit(d) + ")(" + w.exprs(d, 0, 2) + ")"
	default:
		return "(" + w.expr(d+1) + ")"
	}
}
