package prog

import (
	"math"
	"strconv"
	"strings"
)

// Model side of the pattern of gen_switchagain.go (C08, eighth round).

// noteSwitch is called by the model when the case cn of the switch statement s has matched the
// subject. It only counts (dynamic features, no influence on the outcome): how often the SAME switch
// statement matched again inside one function invocation (or the one top-level run), how often the
// case that matched lies BEFORE the case that matched the time before, and - the region a remembered
// "last case" would get wrong - how often, on top of that, an expression of that previously matched
// LATER case equals the subject as well (judged without side effects: only for case lists made of
// literals, names, probes of those and sums of those).
func (m *Model) noteSwitch(s, cn *N, subj interface{}, sc *Scope) {
	if len(m.inv) == 0 {
		return
	}
	cur := m.inv[len(m.inv)-1]
	if cur.sw == nil {
		cur.sw = map[*N]*N{}
	}
	last, again := cur.sw[s]
	cur.sw[s] = cn
	if !again {
		return
	}
	m.feat("switch_matched_again_in_one_invocation")
	pos := func(c *N) int {
		for i, k := range s.Ns[1:] {
			if k == c {
				return i
			}
		}
		return -1
	}
	if pos(cn) >= pos(last) {
		return
	}
	m.feat("switch_earlier_case_after_later_case")
	for _, ce := range last.Ns {
		v, ok := pureVal(ce, sc)
		if !ok {
			continue
		}
		if eq, ok := m.equalOK(v, subj); ok && eq {
			m.feat("switch_subject_equals_earlier_case_and_the_later_case_matched_before")
			return
		}
	}
}

// pureVal evaluates an expression that has no effect (literals, names, p(id, e), e + e on integers)
// without logging anything; false for every other expression and for unbound names.
func pureVal(e *N, sc *Scope) (interface{}, bool) {
	switch e.K {
	case "nil":
		return nil, true
	case "true":
		return true, true
	case "false":
		return false, true
	case "int":
		return e.I, true
	case "flt":
		return math.Float64frombits(uint64(e.I)), true
	case "str":
		return e.S, true
	case "id":
		v, _, ok := sc.lookup(e.S)
		if !ok {
			return nil, false
		}
		switch v.(type) {
		case nil, bool, int64, float64, string:
			return v, true
		}
		return nil, false
	case "p":
		if len(e.Ns) == 1 {
			return pureVal(e.Ns[0], sc)
		}
	case "bin":
		if e.S == "+" || e.S == "-" {
			a, ok1 := pureVal(e.Ns[0], sc)
			b, ok2 := pureVal(e.Ns[1], sc)
			ai, aInt := a.(int64)
			bi, bInt := b.(int64)
			if ok1 && ok2 && aInt && bInt {
				if e.S == "+" {
					return ai + bi, true
				}
				return ai - bi, true
			}
		}
	}
	return nil, false
}

// strNumEqual decides equality of a string and a number where the C06 statement decides it and the
// spelling leaves no room for readings: "a string and a number are equal exactly when the string is a
// decimal numeral denoting that number". Decided here: strings without any digit or with a character
// that no notation of numbers uses (never a numeral: not equal) and plain numerals - an optional minus sign, 1-15 digits without a superfluous leading
// zero, optionally a point and 1-6 more digits. Every other spelling (exponents, a plus sign, leading
// zeros, blanks, a bare point) stays undecided: ok is false.
func strNumEqual(a, b interface{}) (eq, ok bool) {
	s, isStr := a.(string)
	num := b
	if !isStr {
		s, isStr = b.(string)
		num = a
	}
	if !isStr {
		return false, false
	}
	var f float64
	switch n := num.(type) {
	case int64:
		if n > 1<<52 || n < -(1<<52) {
			return false, false
		}
		f = float64(n)
	case float64:
		if n != n || n > 1e15 || n < -1e15 {
			return false, false
		}
		f = n
	default:
		return false, false
	}
	if !strings.ContainsAny(s, "0123456789") {
		return false, true
	}
	for _, r := range s {
		if !strings.ContainsRune("0123456789+-._eExXpPoObBaAcCdDfF \t\r\n", r) {
			// a character no spelling of a number has, in any notation
			return false, true
		}
	}
	t := strings.TrimPrefix(s, "-")
	whole, frac, hasPoint := strings.Cut(t, ".")
	digits := func(x string, lo, hi int) bool {
		if len(x) < lo || len(x) > hi {
			return false
		}
		for i := 0; i < len(x); i++ {
			if x[i] < '0' || x[i] > '9' {
				return false
			}
		}
		return true
	}
	if !digits(whole, 1, 15) || (len(whole) > 1 && whole[0] == '0') {
		return false, false
	}
	if hasPoint && !digits(frac, 1, 6) {
		return false, false
	}
	v, err := strconv.ParseFloat(s, 64)
	if err != nil {
		return false, false
	}
	return v == f, true
}
