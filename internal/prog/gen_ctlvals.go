package prog

import (
	"fmt"
	"math"
)

// Patterns of the profile flag CtlVals (C08, seventh round). A profile without the flag draws
// exactly what it drew before.
//
//   - forinMapEntryClasses: for-in over maps whose ENTRIES hold values of every class (nil - written
//     out, a missing entry of another map, the result of a function that returns nothing -, zero and
//     non-zero numbers, empty and non-empty strings, booleans, empty and non-empty lists and maps),
//     under string, integer, boolean and nil keys, built by the three map literal forms and by index
//     assignments afterwards: every entry is visited once, whatever it holds.
//   - returnHeldRef: a function returns an element of a typed slice of slices / of maps, or a slice
//     or map field of a Go struct bound by pointer, from inside nested loops and branches, while
//     deferred calls assign that element / field: the invocation yields the value the return
//     statement read.

type entryClass struct {
	mk    func(g *G) *N
	label string
	isNil bool
}

var entryClasses = []entryClass{
	{func(g *G) *N { return &N{K: "nil"} }, "nil", true},
	{func(g *G) *N { return &N{K: "nil"} }, "nil", true},
	{func(g *G) *N {
		return &N{K: "idx", Ns: []*N{{K: "map", Ns: []*N{Str("k"), Int(1)}}, Str("zz")}}
	}, "nil_from_missing_entry", true},
	{func(g *G) *N {
		return &N{K: "acall", Ns: []*N{{K: "fn", Ss: [][]*N{{{K: "ret"}}}}}}
	}, "nil_from_bare_return", true},
	{func(g *G) *N { return Int(0) }, "zero", false},
	{func(g *G) *N { return g.val() }, "int", false},
	{func(g *G) *N { return &N{K: "flt", I: int64(math.Float64bits(0))} }, "zero_float", false},
	{func(g *G) *N { return &N{K: "flt", I: int64(math.Float64bits(1.5))} }, "float", false},
	{func(g *G) *N { return Str("") }, "empty_string", false},
	{func(g *G) *N { return Str("abc") }, "string", false},
	{func(g *G) *N { return &N{K: "true"} }, "true", false},
	{func(g *G) *N { return &N{K: "false"} }, "false", false},
	{func(g *G) *N { return &N{K: "list"} }, "empty_list", false},
	{func(g *G) *N { return &N{K: "list", Ns: []*N{g.val()}} }, "list", false},
	{func(g *G) *N { return &N{K: "map"} }, "empty_map", false},
	{func(g *G) *N { return &N{K: "map", Ns: []*N{Str("k"), g.val()}} }, "map", false},
}

// forinMapEntryClasses: see the head of the file. Every observation is independent of the order
// in which the entries are visited (probes inside the loop carry negative ids and are compared as a
// multiset; the function that returns from inside the loop is only used when at most one entry
// satisfies its test).
func (g *G) forinMapEntryClasses(c *gctx) []*N {
	g.feat("forin_map_entry_classes")
	g.nextFn++
	em := fmt.Sprintf("em%d", g.nextFn)
	n := g.n(1, 4, "entries")
	form := g.n(0, 2, "maplit") // 0 {..}  1 map{..}  2 map[string]interface{..}
	type ent struct {
		key   *N
		isNil bool
	}
	var ents []ent
	lit := &N{K: []string{"map", "imap", "tmap"}[form]}
	if form == 2 {
		lit.S = "interface"
		g.feat("forin_map_typed_literal_with_interface_values")
	}
	special := []*N{Int(1), {K: "true"}, {K: "nil"}, Int(0)}
	usedSpecial := map[int]bool{}
	nils := 0
	for i := 0; i < n; i++ {
		var key *N = Str(fmt.Sprintf("k%d", i))
		if form != 2 && g.chance(25) {
			j := g.n(0, len(special)-1, "specialkey")
			if !usedSpecial[j] {
				usedSpecial[j] = true
				key = special[j]
				if key.K == "nil" {
					g.feat("forin_map_nil_key")
				}
			}
		}
		cl := entryClasses[g.n(0, len(entryClasses)-1, "entryclass")]
		g.feat("forin_map_entry_" + cl.label)
		lit.Ns = append(lit.Ns, key, cl.mk(g))
		ents = append(ents, ent{key, cl.isNil})
	}
	out := []*N{{K: "let", Ps: []string{em}, Ns: []*N{lit}}}
	if g.chance(35) {
		// an entry stored (or overwritten) afterwards by an index assignment
		i := g.n(0, n, "storeat")
		cl := entryClasses[g.n(0, 5, "storeclass")] // mostly nil
		g.feat("forin_map_entry_stored_by_index_assignment")
		g.feat("forin_map_entry_" + cl.label)
		key := Str(fmt.Sprintf("k%d", i))
		out = append(out, &N{K: "letidx", Ns: []*N{Id(em), key, cl.mk(g)}})
		found := false
		for j := range ents {
			if ents[j].key.K == "str" && ents[j].key.S == key.S {
				ents[j].isNil = cl.isNil
				found = true
			}
		}
		if !found {
			ents = append(ents, ent{key, cl.isNil})
		}
	}
	for _, e := range ents {
		if e.isNil {
			nils++
		}
	}
	if nils > 0 {
		g.feat("forin_map_with_entry_holding_nil")
	}
	if len(ents) > 1 {
		g.feat("forin_map_entry_classes_multi")
	}
	two := g.chance(60)
	vars := []string{"ek"}
	if two {
		vars = append(vars, "ev")
	}
	value := func() *N {
		if two {
			return Id("ev")
		}
		return &N{K: "idx", Ns: []*N{Id(em), Id("ek")}}
	}
	loop := func(over *N, body []*N) *N {
		return &N{K: "forin", Ps: vars, Ns: []*N{over}, Ss: [][]*N{body}}
	}
	kind := g.n(0, 4, "observe")
	if kind == 4 && nils > 1 {
		kind = 0
	}
	switch kind {
	case 0:
		g.feat("forin_map_entries_probed")
		var what *N = &N{K: "list", Ns: []*N{Id("ek"), value()}}
		if !two && g.chance(40) {
			what = Id("ek")
		}
		out = append(out, loop(Id(em), []*N{{K: "expr", Ns: []*N{P1(-g.id(), what)}}}))
	case 1:
		g.feat("forin_map_entries_counted")
		cnt := fmt.Sprintf("en%d", g.nextFn)
		out = append(out,
			&N{K: "var", Ps: []string{cnt}, Ns: []*N{Int(0)}},
			loop(Id(em), []*N{{K: "let", Ps: []string{cnt}, Ns: []*N{Bin("+", Id(cnt), Int(1))}}}),
			&N{K: "expr", Ns: []*N{P1(g.id(), Id(cnt))}})
	case 2:
		g.feat("forin_map_continue_at_entries_holding_nil")
		out = append(out, loop(Id(em), []*N{
			{K: "if", Ns: []*N{Bin("==", value(), &N{K: "nil"})}, Ss: [][]*N{{{K: "expr", Ns: []*N{P1(-g.id(), &N{K: "list", Ns: []*N{Id("ek"), Str("unset")}})}}, {K: "cont"}}}},
			{K: "expr", Ns: []*N{P1(-g.id(), Id("ek"))}},
		}))
	case 3:
		g.feat("forin_map_branch_on_entry_truthiness")
		out = append(out, loop(Id(em), []*N{
			{K: "if", Ns: []*N{value()}, Ss: [][]*N{
				{{K: "expr", Ns: []*N{P1(-g.id(), &N{K: "list", Ns: []*N{Id("ek"), Str("truthy")}})}}},
				{{K: "expr", Ns: []*N{P1(-g.id(), &N{K: "list", Ns: []*N{Id("ek"), Str("falsy")}})}}},
			}, B: true},
		}))
	default:
		// return from inside the loop at the (at most one) entry that holds nil
		g.feat("forin_map_return_at_the_entry_holding_nil")
		fu := fmt.Sprintf("fu%d", g.nextFn)
		inner := func() *N {
			if two {
				return Id("ev")
			}
			return &N{K: "idx", Ns: []*N{Id("m"), Id("ek")}}
		}
		ret := &N{K: "if", Ns: []*N{Bin("==", inner(), &N{K: "nil"})}, Ss: [][]*N{{{K: "ret", Ns: []*N{&N{K: "list", Ns: []*N{Str("at"), Id("ek")}}}}}}}
		var nest *N = ret
		if g.chance(40) {
			// the return crosses a switch as well
			nest = &N{K: "switch", Ns: []*N{Int(1), {K: "case", Ns: []*N{Int(1)}, Ss: [][]*N{{ret}}}}}
		}
		out = append(out,
			&N{K: "expr", Ns: []*N{{K: "fn", S: fu, Ps: []string{"m"}, Ss: [][]*N{{
				loop(Id("m"), []*N{nest}),
				{K: "ret", Ns: []*N{Str("none")}},
			}}}}},
			&N{K: "expr", Ns: []*N{P1(g.id(), Call(fu, Id(em)))}})
	}
	return out
}

// returnHeldRef: see the head of the file.
func (g *G) returnHeldRef(c *gctx) []*N {
	g.feat("return_of_slot_holding_slice_or_map_assigned_by_deferred_call")
	g.nextFn++
	fn := fmt.Sprintf("rh%d", g.nextFn)
	ints := func(n int) *N {
		l := &N{K: "tlist", S: "int64"}
		for i := 0; i < n; i++ {
			l.Ns = append(l.Ns, g.val())
		}
		return l
	}
	strs := func(n int) *N {
		l := &N{K: "tlist", S: "string"}
		for i := 0; i < n; i++ {
			l.Ns = append(l.Ns, Str(fmt.Sprintf("s%d", g.id())))
		}
		return l
	}
	imap := func(n int) *N {
		mp := &N{K: "tmap", S: "int64"}
		for i := 0; i < n; i++ {
			mp.Ns = append(mp.Ns, Str(fmt.Sprintf("m%d", i)), g.val())
		}
		return mp
	}
	var pre []*N
	var fresh func() *N      // a new value of the slot's type, told apart by its length
	var slotAt func(i *N) *N // the slot expression (i is ignored for fields)
	var assignAt func(i, v *N) *N
	indexed := true
	nextLen := 3
	ta := Id("ta")
	overIdx := func() {
		slotAt = func(i *N) *N { return &N{K: "idx", Ns: []*N{ta, i}} }
		assignAt = func(i, v *N) *N { return &N{K: "letidx", Ns: []*N{ta, i, v}} }
	}
	field := func(name string) {
		indexed = false
		slotAt = func(i *N) *N { return &N{K: "mem", S: name, Ns: []*N{Id("hbox")}} }
		assignAt = func(i, v *N) *N { return &N{K: "letmem", S: name, Ns: []*N{Id("hbox"), v}} }
	}
	switch g.n(0, 6, "rhcontainer") {
	case 0:
		g.feat("returned_slot_element_of_made_slice_of_slices")
		fresh = func() *N { nextLen++; return ints(nextLen) }
		pre = []*N{
			{K: "let", Ps: []string{"ta"}, Ns: []*N{{K: "mkslice", S: "[]int64", I: 2}}},
			{K: "letidx", Ns: []*N{ta, Int(0), ints(1)}},
			{K: "letidx", Ns: []*N{ta, Int(1), ints(2)}},
		}
		overIdx()
	case 1:
		g.feat("returned_slot_element_of_literal_slice_of_slices")
		fresh = func() *N { nextLen++; return ints(nextLen) }
		pre = []*N{{K: "let", Ps: []string{"ta"}, Ns: []*N{{K: "tlist", S: "[]int64", Ns: []*N{ints(1), ints(2)}}}}}
		overIdx()
	case 2:
		g.feat("returned_slot_element_of_slice_of_string_slices")
		fresh = func() *N { nextLen++; return strs(nextLen) }
		pre = []*N{{K: "let", Ps: []string{"ta"}, Ns: []*N{{K: "tlist", S: "[]string", Ns: []*N{strs(1), strs(2)}}}}}
		overIdx()
	case 3:
		g.feat("returned_slot_element_of_made_slice_of_maps")
		fresh = func() *N { nextLen++; return imap(nextLen) }
		pre = []*N{
			{K: "let", Ps: []string{"ta"}, Ns: []*N{{K: "mkslice", S: "map[string]int64", I: 2}}},
			{K: "letidx", Ns: []*N{ta, Int(0), imap(1)}},
			{K: "letidx", Ns: []*N{ta, Int(1), imap(2)}},
		}
		overIdx()
	case 4:
		g.feat("returned_slot_slice_field_of_host_struct")
		fresh = func() *N { nextLen++; return ints(nextLen) }
		field("Row")
		pre = []*N{assignAt(nil, ints(2))}
	case 5:
		g.feat("returned_slot_string_slice_field_of_host_struct")
		fresh = func() *N { nextLen++; return strs(nextLen) }
		field("Items")
		pre = []*N{assignAt(nil, strs(2))}
	default:
		g.feat("returned_slot_map_field_of_host_struct")
		fresh = func() *N { nextLen++; return imap(nextLen) }
		field("M")
		pre = []*N{assignAt(nil, imap(2))}
	}
	at := int64(g.n(0, 1, "rhslot"))
	slot := func() *N { return slotAt(Int(at)) }
	body := append([]*N{}, pre...)
	deferAssign := func() {
		if g.chance(35) {
			g.feat("deferred_assignment_through_a_named_function")
			body = append(body,
				&N{K: "let", Ps: []string{"tset"}, Ns: []*N{{K: "fn", Ps: []string{"v"}, Ss: [][]*N{{assignAt(Int(at), Id("v")), {K: "expr", Ns: []*N{P1(g.id(), slot())}}, {K: "ret"}}}}}},
				&N{K: "defer", Ns: []*N{Call("tset", fresh())}})
			return
		}
		body = append(body, &N{K: "defer", Ns: []*N{{K: "acall", Ns: []*N{{K: "fn", Ss: [][]*N{{assignAt(Int(at), fresh()), {K: "expr", Ns: []*N{P1(g.id(), slot())}}, {K: "ret"}}}}}}}})
	}
	deferAssign()
	if g.chance(30) {
		g.feat("two_deferred_calls_assign_the_returned_slot")
		deferAssign()
	}
	ret := &N{K: "ret", Ns: []*N{slot()}}
	if g.chance(20) {
		// several values: a list of the values read
		g.feat("returned_slot_in_a_return_list")
		ret = &N{K: "ret", Ns: []*N{slot(), g.val()}}
		if g.chance(50) {
			ret = &N{K: "ret", Ns: []*N{g.val(), slot()}}
		}
	}
	nest := g.n(0, 5, "rhnest")
	if nest == 3 && !indexed {
		nest = 2
	}
	switch nest {
	case 0:
		g.feat("return_of_slot_direct")
		body = append(body, ret)
	case 1:
		g.feat("return_of_slot_inside_if")
		body = append(body, &N{K: "if", Ns: []*N{Bin("<", Int(1), Int(2))}, Ss: [][]*N{{ret}}})
	case 2:
		g.feat("return_of_slot_inside_forin_and_if")
		body = append(body, &N{K: "forin", Ps: []string{"it"}, Ns: []*N{{K: "list", Ns: []*N{Int(1), Int(2)}}}, Ss: [][]*N{{
			{K: "if", Ns: []*N{Bin("==", Id("it"), Int(2))}, Ss: [][]*N{{ret}}},
		}}})
	case 3:
		// the slot is indexed by the counter of a C-style loop inside a `for { }` loop
		g.feat("return_of_slot_inside_two_loops_indexed_by_the_counter")
		r3 := &N{K: "ret", Ns: []*N{slotAt(Id("ri"))}}
		body = append(body, &N{K: "loop", Ss: [][]*N{{
			{K: "cfor", Ns: []*N{{K: "let", Ps: []string{"ri"}, Ns: []*N{Int(0)}}, Bin("<", Id("ri"), Int(2)), {K: "inc", S: "ri", I: 1}}, Ss: [][]*N{{
				{K: "if", Ns: []*N{Bin("==", Id("ri"), Int(at))}, Ss: [][]*N{{r3}}},
			}}},
			{K: "break"},
		}}})
	case 4:
		g.feat("return_of_slot_inside_loop_and_switch")
		ctr := g.ctr()
		body = append(body,
			&N{K: "var", Ps: []string{ctr}, Ns: []*N{Int(0)}},
			&N{K: "loop", Ns: []*N{Bin("<", Id(ctr), Int(3))}, Ss: [][]*N{{
				{K: "let", Ps: []string{ctr}, Ns: []*N{Bin("+", Id(ctr), Int(1))}},
				{K: "switch", Ns: []*N{Id(ctr), {K: "case", Ns: []*N{Int(2)}, Ss: [][]*N{{ret}}}, {K: "default", Ss: [][]*N{{{K: "cont"}}}}}},
			}}})
	default:
		g.feat("return_of_slot_inside_catch")
		body = append(body, &N{K: "try", Ss: [][]*N{{{K: "throw", Ns: []*N{Str("E")}}}, {ret}}})
	}
	body = append(body, &N{K: "ret", Ns: []*N{Str("end")}})
	out := []*N{{K: "expr", Ns: []*N{{K: "fn", S: fn, Ss: [][]*N{body}}}}}
	switch g.n(0, 2, "rhuse") {
	case 0:
		out = append(out, &N{K: "expr", Ns: []*N{P1(g.id(), Call(fn))}})
	case 1:
		if len(ret.Ns) == 1 {
			out = append(out, &N{K: "expr", Ns: []*N{P1(g.id(), &N{K: "len", Ns: []*N{Call(fn)}})}})
		} else {
			out = append(out, &N{K: "expr", Ns: []*N{P1(g.id(), Call(fn))}})
		}
	default:
		rx := fmt.Sprintf("rx%d", g.nextFn)
		out = append(out, &N{K: "let", Ps: []string{rx}, Ns: []*N{Call(fn)}}, &N{K: "expr", Ns: []*N{P1(g.id(), Id(rx))}})
	}
	if !indexed {
		// the struct outlives the call: what the deferred calls assigned is there afterwards
		out = append(out, &N{K: "expr", Ns: []*N{P1(g.id(), slot())}})
	}
	return out
}
