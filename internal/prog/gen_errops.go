package prog

import (
	"fmt"
)

// Patterns of the profile flag ErrOps (C09): failing points INSIDE expressions and inside the
// interpreter's own operations, and results that still point into a typed container. A profile
// without the flag draws exactly what it drew before.

// rterr builds an expression that raises a runtime error inside the interpreter: an operation on
// which Go itself panics, or whose result could not exist. Nothing but the fact that it fails at
// this point is modelled (the text of the error is not compared).
func (g *G) rterr() *N {
	mk := func(class, src string) *N {
		g.feat("runtime_error_" + class)
		return &N{K: "rterr", S: src, Ps: []string{class}}
	}
	switch g.n(0, 6, "rterrkind") {
	case 0, 1, 2:
		// a repeated string longer than any string can be
		reps := []string{`("ab" * 9223372036854775807)`, `("ab" * 4611686018427387904)`, `("abcd" * 4611686018427387904)`, `("abc" * 9223372036854775807)`}
		return mk("string_repeat_overflow", reps[g.n(0, len(reps)-1, "rep")])
	case 3:
		return mk("modulo_by_zero", fmt.Sprintf("(%d %% 0)", g.n(1, 9, "mz")))
	case 4:
		return mk("slice_bounds_inverted", "[1, 2, 3][2:1]")
	case 5:
		return mk("make_slice_too_long", "make([]int64, 4611686018427387904)")
	default:
		return mk("index_of_a_number", fmt.Sprintf("%d[0]", g.n(1, 9, "ion")))
	}
}

// rterrStmt is a statement that fails inside the interpreter. Some need a line of preparation
// (a channel that has been closed); those sit in an `if true` block of their own.
func (g *G) rterrStmt() *N {
	if g.chance(25) {
		g.nextFn++
		ch := fmt.Sprintf("zc%d", g.nextFn)
		class, src := "close_of_closed_channel", "close("+ch+")"
		if g.chance(50) {
			class, src = "send_on_closed_channel", "("+ch+" <- 1)"
		}
		g.feat("runtime_error_" + class)
		return &N{K: "if", Ns: []*N{{K: "true"}}, Ss: [][]*N{{
			{K: "setup", S: ch + " = make(chan int64, 1)"},
			{K: "setup", S: "close(" + ch + ")"},
			{K: "expr", Ns: []*N{{K: "rterr", S: src, Ps: []string{class}}}},
			{K: "expr", Ns: []*N{P(g.id())}},
		}}}
	}
	return &N{K: "expr", Ns: []*N{g.rterr()}}
}

// raiseInsideExpr: ONE compound expression in which an operand that is not the last one fails, and
// the operands after it are probes, calls by name and `??` expressions: after the failing point
// nothing of the expression runs, and the failure reaches the nearest try (or ends the invocation).
func (g *G) raiseInsideExpr(c *gctx) []*N {
	g.feat("raising_operand_inside_expression")
	g.nextFn++
	th := fmt.Sprintf("th%d", g.nextFn)
	okf := fmt.Sprintf("ok%d", g.nextFn)
	out := []*N{
		// th(): probe, then throw, with a deferred probe of its own
		{K: "expr", Ns: []*N{{K: "fn", S: th, Ss: [][]*N{{
			{K: "defer", Ns: []*N{P(g.id())}},
			{K: "expr", Ns: []*N{P(g.id())}},
			{K: "throw", Ns: []*N{Str(fmt.Sprintf("T%d", g.id()))}},
		}}}}},
		// ok(v): probe, return v
		{K: "expr", Ns: []*N{{K: "fn", S: okf, Ps: []string{"v"}, Ss: [][]*N{{
			{K: "expr", Ns: []*N{P1(g.id(), Id("v"))}},
			{K: "ret", Ns: []*N{Id("v")}},
		}}}}},
	}
	var raiser *N
	switch g.n(0, 5, "raiser") {
	case 0:
		g.feat("raiser_host_panic")
		raiser = &N{K: "pfail", I: g.id()}
	case 1:
		g.feat("raiser_undefined_name")
		raiser = Id("zz")
	case 2:
		g.feat("raiser_index_out_of_range")
		raiser = &N{K: "idx", Ns: []*N{{K: "list", Ns: []*N{g.val()}}, Int(int64(g.n(1, 3, "oob")))}}
	case 3, 4:
		g.feat("raiser_throw_in_called_function")
		raiser = Call(th)
	default:
		g.feat("raiser_runtime_error_inside_interpreter")
		raiser = g.rterr()
	}
	later := func() *N {
		switch g.n(0, 5, "later") {
		case 0:
			return P1(g.id(), g.val())
		case 1, 2:
			g.feat("call_by_name_after_the_failing_operand")
			return Call(okf, g.val())
		case 3:
			g.feat("coalesce_after_the_failing_operand")
			return &N{K: "coal", Ns: []*N{Id(g.name()), P1(g.id(), g.val())}}
		case 4:
			g.feat("coalesce_after_the_failing_operand")
			return &N{K: "coal", Ns: []*N{Id("zz"), Call(okf, g.val())}}
		default:
			return g.val()
		}
	}
	before := func() *N {
		switch g.n(0, 2, "before") {
		case 0:
			return P1(g.id(), g.val())
		case 1:
			return Call(okf, g.val())
		default:
			return g.val()
		}
	}
	var e *N
	var st *N
	switch g.n(0, 8, "compound") {
	case 0, 1:
		g.feat("raising_operand_in_list_literal")
		e = &N{K: "list"}
		if g.chance(50) {
			e.Ns = append(e.Ns, before())
		}
		e.Ns = append(e.Ns, raiser, later())
		if g.chance(50) {
			e.Ns = append(e.Ns, later())
		}
	case 2:
		g.feat("raising_operand_in_map_literal")
		e = &N{K: "map", Ns: []*N{Str("k1"), before(), Str("k2"), raiser, Str("k3"), later()}}
	case 3:
		g.feat("raising_operand_in_go_call_arguments")
		e = Call("gfix3", before(), raiser, later())
	case 4:
		g.feat("raising_operand_in_binary_operator")
		e = Bin("+", raiser, later())
		if g.chance(50) {
			e = Bin("+", before(), e)
		}
	case 5:
		g.feat("raising_operand_in_nested_list_literal")
		e = &N{K: "list", Ns: []*N{before(), {K: "list", Ns: []*N{raiser, later()}}, later()}}
	case 6:
		g.feat("raising_operand_in_return_list")
		e = &N{K: "acall", Ns: []*N{{K: "fn", Ss: [][]*N{{
			{K: "defer", Ns: []*N{P(g.id())}},
			{K: "ret", Ns: []*N{before(), raiser, later()}},
		}}}}}
	case 7:
		g.feat("raising_operand_in_multi_assignment")
		st = &N{K: "let", Ps: []string{g.name(), g.name(), g.name()}, Ns: []*N{before(), raiser, later()}}
	default:
		g.feat("raising_operand_in_typed_list_literal")
		e = &N{K: "tlist", S: "int64", Ns: []*N{before(), raiser, later()}}
	}
	if st == nil {
		switch g.n(0, 2, "place") {
		case 0:
			st = &N{K: "expr", Ns: []*N{e}}
		case 1:
			st = &N{K: "expr", Ns: []*N{P1(g.id(), e)}}
		default:
			st = &N{K: "var", Ps: []string{"rv"}, Ns: []*N{e}}
		}
	}
	after := &N{K: "expr", Ns: []*N{P(g.id())}}
	if g.chance(70) {
		t := &N{K: "try", S: "e", Ss: [][]*N{{st, after}, {{K: "expr", Ns: []*N{P1(g.id(), Id("e"))}}}}}
		if g.chance(30) {
			t.B = true
			t.Ss = append(t.Ss, []*N{{K: "expr", Ns: []*N{P(g.id())}}})
		}
		return append(out, t)
	}
	g.feat("raising_operand_inside_expression_uncaught")
	return append(out, g.guarded(c, st), after)
}

// deferAfterReturnedTypedSlot: a function returns an element of a TYPED slice, an element of an
// array field or a field of a Go struct the host bound by pointer, and a deferred call assigns that
// element / field afterwards: deferred calls do not alter the invocation's result.
func (g *G) deferAfterReturnedTypedSlot(c *gctx) []*N {
	g.nextFn++
	fn := fmt.Sprintf("dt%d", g.nextFn)
	v1, v2 := g.val(), g.val()
	var pre []*N             // statements of the body before the defer
	var slot func() *N       // the expression returned
	var assign func(v *N) *N // the assignment the deferred call performs
	ta := Id("ta")
	idx0 := func(cont func() *N) {
		slot = func() *N { return &N{K: "idx", Ns: []*N{cont(), Int(0)}} }
		assign = func(v *N) *N { return &N{K: "letidx", Ns: []*N{cont(), Int(0), v}} }
	}
	switch g.n(0, 5, "dtform") {
	case 0:
		g.feat("deferred_call_assigns_the_returned_typed_slice_element")
		pre = []*N{{K: "let", Ps: []string{"ta"}, Ns: []*N{{K: "tlist", S: "int64", Ns: []*N{v1, g.val()}}}}}
		idx0(func() *N { return ta })
	case 1:
		g.feat("deferred_call_assigns_the_returned_typed_slice_element")
		v1, v2 = Str(fmt.Sprintf("s%d", g.id())), Str(fmt.Sprintf("t%d", g.id()))
		pre = []*N{{K: "let", Ps: []string{"ta"}, Ns: []*N{{K: "tlist", S: "string", Ns: []*N{v1, Str("u")}}}}}
		idx0(func() *N { return ta })
	case 2:
		g.feat("deferred_call_assigns_the_returned_made_slice_element")
		pre = []*N{
			{K: "let", Ps: []string{"ta"}, Ns: []*N{{K: "mkslice", S: "int64", I: int64(g.n(1, 3, "mklen"))}}},
			{K: "letidx", Ns: []*N{ta, Int(0), v1}},
		}
		idx0(func() *N { return ta })
	case 3:
		g.feat("deferred_call_assigns_the_returned_struct_field")
		pre = []*N{{K: "letmem", S: "F", Ns: []*N{Id("hst"), v1}}}
		slot = func() *N { return &N{K: "mem", S: "F", Ns: []*N{Id("hst")}} }
		assign = func(v *N) *N { return &N{K: "letmem", S: "F", Ns: []*N{Id("hst"), v}} }
	case 4:
		g.feat("deferred_call_assigns_the_returned_struct_field")
		v1, v2 = Str(fmt.Sprintf("s%d", g.id())), Str(fmt.Sprintf("t%d", g.id()))
		pre = []*N{{K: "letmem", S: "S", Ns: []*N{Id("hst"), v1}}}
		slot = func() *N { return &N{K: "mem", S: "S", Ns: []*N{Id("hst")}} }
		assign = func(v *N) *N { return &N{K: "letmem", S: "S", Ns: []*N{Id("hst"), v}} }
	default:
		g.feat("deferred_call_assigns_the_returned_array_field_element")
		hA := func() *N { return &N{K: "mem", S: "A", Ns: []*N{Id("hst")}} }
		pre = []*N{{K: "letidx", Ns: []*N{hA(), Int(0), v1}}}
		idx0(hA)
	}
	body := append([]*N{}, pre...)
	if g.chance(35) {
		// the deferred callee is a function with a parameter: the value assigned is an argument
		g.feat("deferred_assignment_through_a_named_function")
		body = append(body,
			&N{K: "let", Ps: []string{"tset"}, Ns: []*N{{K: "fn", Ps: []string{"v"}, Ss: [][]*N{{assign(Id("v")), {K: "expr", Ns: []*N{P1(g.id(), slot())}}, {K: "ret"}}}}}},
			&N{K: "defer", Ns: []*N{Call("tset", v2)}})
	} else {
		body = append(body, &N{K: "defer", Ns: []*N{{K: "acall", Ns: []*N{{K: "fn", Ss: [][]*N{{assign(v2), {K: "expr", Ns: []*N{P1(g.id(), slot())}}, {K: "ret"}}}}}}}})
	}
	if g.chance(30) {
		// a second deferred call, registered later (so it runs first), assigns too
		g.feat("two_deferred_calls_assign_the_returned_slot")
		v3 := v1
		if v1.K == "int" {
			v3 = g.val()
		}
		body = append(body, &N{K: "defer", Ns: []*N{{K: "acall", Ns: []*N{{K: "fn", Ss: [][]*N{{assign(v3), {K: "ret"}}}}}}}})
	}
	body = append(body, &N{K: "ret", Ns: []*N{slot()}})
	out := []*N{
		{K: "expr", Ns: []*N{{K: "fn", S: fn, Ss: [][]*N{body}}}},
		{K: "expr", Ns: []*N{P1(g.id(), Call(fn))}},
	}
	if len(pre) == 1 && pre[0].K != "let" {
		// the struct outlives the call: what the deferred call assigned is there afterwards
		out = append(out, &N{K: "expr", Ns: []*N{P1(g.id(), slot())}})
	}
	return out
}
