package prog

import (
	"fmt"
	"math"

	"pgregory.net/rapid"
)

// Profile selects which constructs the generator emits.
type Profile struct {
	Scopes   bool // var/let at every level, existence probes, closures, modules (C04)
	Control  bool // break/continue/return at every position, truthiness classes (C08)
	Errors   bool // try/catch/finally, throw, runtime errors, defer (C09)
	IncDec   bool // x++ / x += e statements (C14)
	Cross    bool // by-construction scope patterns: every binder form x every block form on a fresh name, own-name rebinding, closure factories called several times (C04)
	HostChan bool // the environment is prog.NewHost (has gch(v), a buffered channel holding v, and the callback-taking gcall0 / geach): `x = <-gch(v)` binder forms, script callbacks handed to Go
	Assign   bool // by-construction pattern assignCross: every ASSIGNING form (the ones without var) on a name that an enclosing scope binds, inside every block form, read inside and afterwards (C04); needs HostChan for the receive and gset(&x, v) forms
	ErrOps   bool // patterns of gen_errops.go (C09): an operand that is not the last one fails inside a compound expression, runtime errors raised by the interpreter's own operations (string repeat overflow, closed channels, ...), a deferred call assigns the typed-slice element / struct field just returned, deferred calls whose arguments are read from slots stored into afterwards (gen_deferargs.go); needs Errors and HostChan
	CtlVals  bool // patterns of gen_ctlvals.go (C08): for-in over maps whose entries hold values of every class (nil included), functions that return an element or field holding a slice or a map while deferred calls assign it; needs HostChan (the Go struct hbox)
	ErrFlow  bool // patterns of gen_errflow.go (C09): a catch variable read after a try nested in its catch block bound the same name, a loop header expression (post / condition) that raises after a round that ended with continue; needs Errors, HostChan and ErrOps
	ModAgain bool // pattern of gen_modagain.go (C04): a module statement for a name that names a module (or a value) in an enclosing scope, inside every block form / function, observed inside and afterwards
	SwAgain  bool // pattern of gen_switchagain.go (C08): one switch with overlapping case lists run several times by a loop inside one function invocation / at top level
	MaxDepth int
	MaxStmts int // statements per block
}

type fnInfo struct {
	name   string
	idx    int
	arity  int
	vararg bool
	ret    string // "int" | "none" | "pair"
	encl   int    // index of the directly enclosing function
}

// G is the constructive program generator. Every program it returns parses and
// terminates by construction (loops are counter-guarded, calls only go to functions
// created earlier in the text, recursion carries fuel).
type G struct {
	t        *rapid.T
	prof     Profile
	nextID   int64
	nextVal  int64
	nextFn   int
	nextCtr  int
	nextMod  int
	escaping []string // function names pre-declared at top level so closures outlive their block
	Feat     map[string]int
}

type gctx struct {
	depth  int
	inLoop bool
	canRet bool
	ret    string // return kind of the enclosing function ("int" at top level)
	fns    []fnInfo
	fnIdx  int  // index of the enclosing function (calls only to smaller indices); big at top level
	flat   bool // inside a multi-entry map loop body: only order-insensitive statements
	mods   []string
	anc    []int // indices of the enclosing functions (never called: no recursion cycles)
}

var pool = []string{"a", "b", "c", "d"}

func (g *G) n(lo, hi int, label string) int { return rapid.IntRange(lo, hi).Draw(g.t, label) }
func (g *G) chance(pct int) bool            { return rapid.IntRange(0, 99).Draw(g.t, "pct") < pct }
func (g *G) name() string                   { return rapid.SampledFrom(pool).Draw(g.t, "name") }
func (g *G) id() int64                      { g.nextID++; return g.nextID }
func (g *G) val() *N                        { g.nextVal++; return Int(g.nextVal) }
func (g *G) feat(s string)                  { g.Feat[s]++ }

// Generate builds a whole program.
func Generate(t *rapid.T, prof Profile) ([]*N, map[string]int) {
	g := &G{t: t, prof: prof, nextVal: 9, Feat: map[string]int{}}
	if prof.MaxDepth == 0 {
		g.prof.MaxDepth = 4
	}
	if prof.MaxStmts == 0 {
		g.prof.MaxStmts = 5
	}
	c := gctx{canRet: true, ret: "int", fnIdx: math.MaxInt32}
	body := g.block(&c, g.n(2, g.prof.MaxStmts+3, "topn"))
	var prelude []*N
	if g.chance(85) {
		for i, nm := range pool {
			prelude = append(prelude, &N{K: "let", Ps: []string{nm}, Ns: []*N{Int(int64(i + 1))}})
		}
	}
	for _, f := range g.escaping {
		prelude = append(prelude, &N{K: "let", Ps: []string{f}, Ns: []*N{{K: "nil"}}})
	}
	final := &N{K: "ret", Ns: []*N{{K: "list", Ns: []*N{g.safeRead("a"), g.safeRead("b"), g.safeRead("c"), g.safeRead("d")}}}}
	prog := append(prelude, body...)
	prog = append(prog, final)
	return prog, g.Feat
}

// safeRead reads a pool name, yielding a string marker when it is not bound.
func (g *G) safeRead(nm string) *N {
	return &N{K: "coal", Ns: []*N{Id(nm), Str("undef")}}
}

func (g *G) block(c *gctx, n int) []*N {
	var out []*N
	for i := 0; i < n; i++ {
		out = append(out, g.stmt(c)...)
	}
	return out
}

// sub returns the context for a nested block.
func (c *gctx) sub() *gctx {
	k := *c
	k.depth++
	k.fns = append([]fnInfo{}, c.fns...)
	k.mods = append([]string{}, c.mods...)
	k.anc = append([]int{}, c.anc...)
	return &k
}

// keep merges functions created in a nested block that are visible afterwards (escaping names).
func (c *gctx) keep(k *gctx, g *G) {
	for _, f := range k.fns[len(c.fns):] {
		for _, e := range g.escaping {
			if e == f.name {
				c.fns = append(c.fns, f)
			}
		}
	}
}

func (g *G) stmt(c *gctx) []*N {
	if c.flat {
		return g.flatStmt(c)
	}
	deep := c.depth >= g.prof.MaxDepth
	type opt struct {
		w int
		f func() []*N
	}
	var opts []opt
	add := func(w int, f func() []*N) {
		if w > 0 {
			opts = append(opts, opt{w, f})
		}
	}
	b2i := func(b bool, yes, no int) int {
		if b {
			return yes
		}
		return no
	}
	P := g.prof
	add(10, func() []*N { return []*N{{K: "let", Ps: []string{g.name()}, Ns: []*N{g.iexpr(c, 2)}}} })
	add(b2i(P.Scopes, 10, 3), func() []*N { return []*N{{K: "var", Ps: []string{g.name()}, Ns: []*N{g.iexpr(c, 2)}}} })
	add(10, func() []*N { return []*N{{K: "expr", Ns: []*N{P1(g.id(), Id(g.name()))}}} })
	add(b2i(P.Scopes, 6, 1), func() []*N { return []*N{g.existProbe()} })
	add(b2i(P.Scopes, 3, 0), func() []*N {
		// several names, ONE list-valued right-hand side: var binds every name here, the
		// assignment form updates the nearest bindings
		g.feat("two_names_one_list_value")
		a, b := g.name(), g.name()
		kind := "var"
		if g.chance(35) {
			kind = "let"
		}
		var rhs *N = &N{K: "list", Ns: []*N{g.val(), g.val()}}
		if f, ok := g.pickFn(c, "pair"); ok && g.chance(50) {
			rhs = g.callExpr(c, f, 1)
		}
		return []*N{{K: kind, Ps: []string{a, b}, Ns: []*N{rhs}}, {K: "expr", Ns: []*N{P1(g.id(), Id(a))}}}
	})
	add(b2i(P.Scopes, 2, 0), func() []*N { return g.cforOuterCounter(c) })
	add(2, func() []*N {
		// multi assignment
		a, b := g.name(), g.name()
		return []*N{{K: "let", Ps: []string{a, b}, Ns: []*N{g.iexpr(c, 1), g.iexpr(c, 1)}}}
	})
	if P.IncDec {
		add(4, func() []*N {
			if g.chance(50) {
				return []*N{{K: "expr", Ns: []*N{{K: "inc", S: g.name(), I: int64(1 - 2*g.n(0, 1, "dec"))}}}}
			}
			op := rapid.SampledFrom([]string{"+", "-", "*"}).Draw(g.t, "opas")
			return []*N{{K: "expr", Ns: []*N{{K: "opas", S: g.name(), Ps: []string{op}, Ns: []*N{g.iexpr(c, 1)}}}}}
		})
	}
	if !deep {
		add(8, func() []*N { return []*N{g.ifStmt(c)} })
		add(b2i(P.Control, 9, 5), func() []*N { return g.loopStmt(c) })
		add(b2i(P.Control, 5, 2), func() []*N { return []*N{g.switchStmt(c)} })
		add(b2i(P.Errors, 9, b2i(P.Scopes, 3, 1)), func() []*N { return []*N{g.tryStmt(c)} })
		add(b2i(P.Scopes, 7, 5), func() []*N { return g.funcDef(c) })
		add(b2i(P.Scopes, 3, 0), func() []*N { return g.moduleStmt(c) })
		add(b2i(P.Scopes || P.Control, 2, 1), func() []*N { return g.recursion(c) })
		if P.Control {
			add(4, func() []*N { return g.strayBreak(c) })
		}
		if P.Cross {
			add(7, func() []*N { return g.scopeCross(c) })
			add(2, func() []*N { return g.selfName(c) })
			add(3, func() []*N { return g.closureFactory(c) })
			add(3, func() []*N { return g.nestedCallArgs(c) })
			add(3, func() []*N { return g.lateShadow(c) })
			add(5, func() []*N { return g.shadowCross(c) })
			add(2, func() []*N { return g.condRaises(c) })
		}
		if P.Cross || P.Control {
			add(3, func() []*N { return g.moduleAbrupt(c) })
		}
		add(1, func() []*N { return g.freshLiteral(c) })
		if P.Control && !deep {
			add(2, func() []*N { return g.returnListAlias(c) })
			add(1, func() []*N { return g.longForBreak(c) })
		}
	}
	if len(c.fns) > 0 {
		add(8, func() []*N { return []*N{g.callStmt(c)} })
	}
	if c.inLoop {
		add(b2i(P.Control, 9, 2), func() []*N { return []*N{g.guarded(c, &N{K: "break"})} })
		add(b2i(P.Control, 9, 2), func() []*N { return []*N{g.guarded(c, &N{K: "cont"})} })
	}
	if c.canRet {
		w := b2i(P.Control, 5, 2)
		if c.fnIdx == math.MaxInt32 {
			w = 1 // a top-level return ends the whole program: keep it rare
		}
		add(w, func() []*N { return []*N{g.guarded(c, g.retStmt(c))} })
	}
	if P.Errors {
		add(4, func() []*N { return []*N{g.guarded(c, &N{K: "throw", Ns: []*N{g.thrown(c)}})} })
		add(3, func() []*N { return []*N{g.guarded(c, g.runtimeErr(c))} })
		add(7, func() []*N { return []*N{g.deferStmt(c)} })
		if !deep {
			add(2, func() []*N { return g.deferRebind(c) })
			add(2, func() []*N { return g.deferAfterReturnedSlot(c) })
		}
		if !deep && P.HostChan {
			add(4, func() []*N { return []*N{g.callbackStmt(c)} })
		}
	}
	if P.Assign && !deep {
		// last in the list: profiles without the flag draw exactly what they drew before
		add(45, func() []*N { return g.assignCross(c) })
	}
	if P.ErrOps && !deep {
		// after every other option, for the same reason
		add(4, func() []*N { return g.raiseInsideExpr(c) })
		add(2, func() []*N { return g.deferAfterReturnedTypedSlot(c) })
		add(2, func() []*N { return []*N{g.guarded(c, g.rterrStmt())} })
		add(2, func() []*N { return g.deferAddrWrite(c) })
		add(4, func() []*N { return g.deferArgsHeld(c) })
	}
	if P.CtlVals && !deep {
		// after every other option, for the same reason (gen_ctlvals.go)
		add(4, func() []*N { return g.forinMapEntryClasses(c) })
		add(3, func() []*N { return g.returnHeldRef(c) })
	}
	if P.ErrFlow && !deep {
		// after every other option, for the same reason (gen_errflow.go)
		add(16, func() []*N { return g.catchVarNested(c) })
		add(16, func() []*N { return g.loopHeaderRaises(c) })
	}
	if P.ModAgain && !deep {
		// after every other option, for the same reason (gen_modagain.go)
		add(30, func() []*N { return g.moduleAgain(c) })
	}
	if P.SwAgain && !deep {
		// after every other option, for the same reason (gen_switchagain.go)
		add(90, func() []*N { return g.switchAgain(c) })
	}
	total := 0
	for _, o := range opts {
		total += o.w
	}
	r := g.n(0, total-1, "stmtkind")
	for _, o := range opts {
		if r < o.w {
			return o.f()
		}
		r -= o.w
	}
	panic("unreachable")
}

// P1 is p(id, e).
func P1(id int64, e *N) *N { return &N{K: "p", I: id, Ns: []*N{e}} }

// guarded optionally wraps an abrupt statement in a data-dependent if so that the rest
// of the block stays reachable on some executions.
func (g *G) guarded(c *gctx, s *N) *N {
	switch g.n(0, 6, "guard") {
	case 0:
		return s
	case 1:
		// in the else branch
		return &N{K: "if", Ns: []*N{g.cond(c, 1)}, Ss: [][]*N{{{K: "expr", Ns: []*N{P1(g.id(), Id(g.name()))}}}, {s}}, B: true}
	case 2:
		// in a switch case or default
		probe := &N{K: "expr", Ns: []*N{P1(g.id(), Id(g.name()))}}
		subj := Bin("%", Id(g.name()), Int(2))
		if g.chance(50) {
			return &N{K: "switch", Ns: []*N{subj, {K: "case", Ns: []*N{Int(int64(g.n(0, 1, "par")))}, Ss: [][]*N{{s}}}, {K: "default", Ss: [][]*N{{probe}}}}}
		}
		return &N{K: "switch", Ns: []*N{subj, {K: "case", Ns: []*N{Int(int64(g.n(0, 1, "par")))}, Ss: [][]*N{{probe}}}, {K: "default", Ss: [][]*N{{s}}}}}
	default:
		return &N{K: "if", Ns: []*N{g.cond(c, 1)}, Ss: [][]*N{{s}}}
	}
}

func (g *G) existProbe() *N {
	nm := g.name()
	if g.chance(25) {
		// names that only exist inside catch blocks must not be visible anywhere else
		nm = rapid.SampledFrom([]string{"e", "e2", "err"}).Draw(g.t, "catchname")
	}
	return &N{K: "try", Ss: [][]*N{
		{{K: "expr", Ns: []*N{P1(g.id(), Id(nm))}}},
		{{K: "expr", Ns: []*N{P1(g.id(), Str("undef"))}}},
	}}
}

// ---------- expressions ----------

// iexpr generates an int-valued expression.
func (g *G) iexpr(c *gctx, depth int) *N {
	k := g.n(0, 11, "iexpr")
	if depth <= 0 && k > 3 {
		k = k % 4
	}
	if g.prof.HostChan && depth > 0 && g.chance(6) {
		// a receive EXPRESSION (as an operand, not the receive statement) from a channel holding one value
		g.feat("receive_expression_operand")
		return &N{K: "recv", Ns: []*N{g.iexpr(c, depth-1)}}
	}
	switch k {
	case 0, 1:
		return g.val()
	case 2, 3:
		return Id(g.name())
	case 4:
		return Bin("+", g.iexpr(c, depth-1), g.val())
	case 5:
		return P1(g.id(), g.iexpr(c, depth-1))
	case 6:
		if f, ok := g.pickFn(c, "int"); ok {
			return g.callExpr(c, f, depth-1)
		}
		return g.val()
	case 7:
		return &N{K: "tern", Ns: []*N{g.cond(c, depth-1), g.iexpr(c, depth-1), g.iexpr(c, depth-1)}}
	case 8:
		return &N{K: "coal", Ns: []*N{g.iexpr(c, depth-1), g.val()}}
	case 9:
		return Bin("*", Id(g.name()), Int(int64(g.n(2, 3, "mul"))))
	case 10:
		return Bin("-", g.iexpr(c, depth-1), Id(g.name()))
	default:
		return &N{K: "len", Ns: []*N{{K: "list", Ns: []*N{g.iexpr(c, depth-1), g.val()}}}}
	}
}

// cond generates a condition; with the Control profile it draws from every truthiness class.
func (g *G) cond(c *gctx, depth int) *N {
	hi := 5
	if g.prof.Control {
		hi = 9
	}
	k := g.n(0, hi, "cond")
	if depth <= 0 && (k == 3 || k == 4) {
		k = 0
	}
	switch k {
	case 0, 1:
		op := rapid.SampledFrom([]string{"<", "<=", ">", ">=", "==", "!="}).Draw(g.t, "cmp")
		return Bin(op, Id(g.name()), Int(int64(g.n(0, 14, "cmpv"))))
	case 2:
		return Bin("==", Bin("%", Id(g.name()), Int(2)), Int(int64(g.n(0, 1, "par"))))
	case 3:
		k := rapid.SampledFrom([]string{"and", "or"}).Draw(g.t, "andor")
		return &N{K: k, Ns: []*N{g.cond(c, depth-1), g.cond(c, depth-1)}}
	case 4:
		return &N{K: "not", Ns: []*N{g.cond(c, depth-1)}}
	case 5:
		return &N{K: rapid.SampledFrom([]string{"true", "false"}).Draw(g.t, "bool")}
	default:
		// truthiness classes: nil, zero/non-zero numbers, empty/non-empty strings, slices, maps
		g.feat("truthiness_class_cond")
		classes := []*N{
			{K: "nil"}, Int(0), Int(7), Int(-1),
			{K: "flt", I: int64(math.Float64bits(0))}, {K: "flt", I: int64(math.Float64bits(1.5))},
			// non-zero floats of small magnitude: neither rounding to an integer nor a tolerance makes them zero
			{K: "flt", I: int64(math.Float64bits(0.4))}, {K: "flt", I: int64(math.Float64bits(1e-12))}, {K: "flt", I: int64(math.Float64bits(5e-324))}, {K: "flt", I: int64(math.Float64bits(1e-300))},
			Str(""), Str("abc"),
			{K: "list"}, {K: "list", Ns: []*N{Int(0)}},
			{K: "map"}, {K: "map", Ns: []*N{Str("k"), Int(0)}},
			Id(g.name()),
		}
		return classes[g.n(0, len(classes)-1, "tclass")]
	}
}

func (g *G) thrown(c *gctx) *N {
	if g.chance(8) {
		// messages the interpreter uses for its own control signals: thrown by a script they are
		// ordinary errors
		g.feat("throw_of_a_sentinel_text")
		return Str(rapid.SampledFrom([]string{"execution interrupted", "unexpected break statement", "unexpected continue statement", "unexpected return statement"}).Draw(g.t, "sentinel"))
	}
	if g.chance(10) {
		// values that print as nothing, or are nothing: a throw raises whatever it is given
		g.feat("throw_of_empty_or_nil")
		return []*N{Str(""), {K: "nil"}, {K: "idx", Ns: []*N{{K: "map", Ns: []*N{Str("k"), Int(1)}}, Str("zz")}}}[g.n(0, 2, "emptythrown")]
	}
	switch g.n(0, 3, "thrown") {
	case 0:
		return Str(fmt.Sprintf("E%d", g.id()))
	case 1:
		return g.val()
	case 2:
		return &N{K: "list", Ns: []*N{g.val(), Str("x")}}
	default:
		return Bin("+", Str("err"), Id(g.name()))
	}
}

func (g *G) runtimeErr(c *gctx) *N {
	switch g.n(0, 2, "rterr") {
	case 0:
		return &N{K: "expr", Ns: []*N{{K: "pfail", I: g.id()}}}
	case 1:
		return &N{K: "expr", Ns: []*N{P1(g.id(), Id("zz"))}} // undefined name
	default:
		return &N{K: "expr", Ns: []*N{P1(g.id(), &N{K: "idx", Ns: []*N{{K: "list", Ns: []*N{g.val()}}, Int(int64(g.n(1, 3, "oob")))}})}}
	}
}

// ---------- functions ----------

func (g *G) pickFn(c *gctx, ret string) (fnInfo, bool) {
	var cands []fnInfo
	for _, f := range c.fns {
		isAnc := false
		for _, a := range c.anc {
			if a == f.idx {
				isAnc = true
			}
		}
		// calls go to functions created earlier in the text, or to functions created
		// directly inside the current one; never to a lexical ancestor: no call cycles
		if !isAnc && (f.idx < c.fnIdx || f.encl == c.fnIdx) && (ret == "" || f.ret == ret) {
			cands = append(cands, f)
		}
	}
	if len(cands) == 0 {
		return fnInfo{}, false
	}
	return cands[g.n(0, len(cands)-1, "fn")], true
}

func (g *G) callExpr(c *gctx, f fnInfo, depth int) *N {
	n := f.arity
	if f.vararg {
		n = f.arity - 1 + g.n(0, 2, "extra")
	}
	if g.chance(4) {
		n = g.n(0, 6, "wrongarity") // occasionally a wrong argument count
	}
	args := make([]*N, n)
	for i := range args {
		args[i] = g.iexpr(c, depth)
	}
	g.feat("call")
	if f.vararg && g.prof.Errors && g.chance(35) {
		// spread call of a variadic function: f(fixed..., list...); the spread operand may raise
		fixed := args
		if len(fixed) > f.arity-1 {
			fixed = fixed[:f.arity-1]
		}
		for len(fixed) < f.arity-1 {
			fixed = append(fixed, g.iexpr(c, depth))
		}
		var sp *N
		switch g.n(0, 5, "spreadoperand") {
		case 0:
			g.feat("spread_operand_raises")
			sp = P1(g.id(), Id("zz")) // undefined name
		case 1:
			g.feat("spread_operand_raises")
			sp = &N{K: "list", Ns: []*N{g.val(), {K: "pfail", I: g.id()}}}
		case 2:
			g.feat("spread_operand_raises")
			sp = &N{K: "idx", Ns: []*N{{K: "list", Ns: []*N{{K: "list", Ns: []*N{g.val()}}}}, Int(int64(g.n(1, 2, "oob")))}}
		default:
			sp = &N{K: "list"}
			for i := g.n(0, 2, "spreadlen"); i > 0; i-- {
				sp.Ns = append(sp.Ns, g.iexpr(c, depth))
			}
		}
		g.feat("call_spread_variadic")
		if g.chance(35) {
			// the callee as an expression, not a bare name
			g.feat("call_spread_variadic_callee_expression")
			return &N{K: "acall", Ns: append(append([]*N{Id(f.name)}, fixed...), sp), B: true}
		}
		return &N{K: "call", S: f.name, Ns: append(append([]*N{}, fixed...), sp), B: true}
	}
	if g.chance(20) {
		return &N{K: "acall", Ns: append([]*N{Id(f.name)}, args...)}
	}
	return &N{K: "call", S: f.name, Ns: args}
}

func (g *G) callStmt(c *gctx) *N {
	f, ok := g.pickFn(c, "")
	if !ok {
		return &N{K: "expr", Ns: []*N{P1(g.id(), Id(g.name()))}}
	}
	call := g.callExpr(c, f, 1)
	switch f.ret {
	case "int":
		if g.chance(50) {
			return &N{K: "let", Ps: []string{g.name()}, Ns: []*N{call}}
		}
		return &N{K: "expr", Ns: []*N{P1(g.id(), call)}}
	case "pair":
		return &N{K: "let", Ps: []string{g.name(), g.name()}, Ns: []*N{call}}
	}
	if g.chance(50) {
		// a function that returns nothing yields nil: observe it
		return &N{K: "expr", Ns: []*N{P1(g.id(), call)}}
	}
	return &N{K: "expr", Ns: []*N{call}}
}

func (g *G) retStmt(c *gctx) *N {
	switch c.ret {
	case "none":
		return &N{K: "ret"}
	case "pair":
		return &N{K: "ret", Ns: []*N{g.iexpr(c, 1), g.iexpr(c, 1)}}
	}
	return &N{K: "ret", Ns: []*N{g.iexpr(c, 1)}}
}

// funcDef creates a function value under a fresh name (and usually calls it later).
func (g *G) funcDef(c *gctx) []*N {
	g.nextFn++
	idx := g.nextFn
	name := fmt.Sprintf("f%d", idx)
	arity := g.n(0, 6, "arity")
	if arity > 4 && g.chance(50) {
		arity = g.n(0, 2, "arity2")
	}
	vararg := arity > 0 && g.chance(15)
	params := make([]string, arity)
	used := map[string]bool{}
	for i := range params {
		p := g.name()
		if used[p] || g.chance(40) {
			p = fmt.Sprintf("q%d", i)
		}
		used[p] = true
		params[i] = p
	}
	ret := rapid.SampledFrom([]string{"int", "int", "int", "none", "pair"}).Draw(g.t, "retkind")
	fc := c.sub()
	fc.inLoop = false
	fc.canRet = true
	fc.ret = ret
	fc.fnIdx = idx
	fc.anc = append(fc.anc, idx)
	fc.flat = false
	body := g.block(fc, g.n(1, g.prof.MaxStmts, "fnn"))
	if vararg {
		// the variadic parameter holds a list: only observe its length
		last := params[arity-1]
		body = append([]*N{{K: "expr", Ns: []*N{P1(g.id(), &N{K: "len", Ns: []*N{Id(last)}})}}, {K: "let", Ps: []string{last}, Ns: []*N{g.val()}}}, body...)
	}
	body = append(body, g.retStmt(fc))
	info := fnInfo{name: name, idx: idx, arity: arity, vararg: vararg, ret: ret, encl: c.fnIdx}
	fn := &N{K: "fn", Ps: params, B: vararg, Ss: [][]*N{body}}
	var out []*N
	g.feat("func_def")
	switch g.n(0, 3, "fnform") {
	case 0:
		// named function statement: binds in the current block
		fn.S = name
		out = append(out, &N{K: "expr", Ns: []*N{fn}})
	case 1:
		// escaping closure: the name is pre-declared at top level, so the closure
		// outlives the block that created it
		g.escaping = append(g.escaping, name)
		g.feat("escaping_closure")
		out = append(out, &N{K: "let", Ps: []string{name}, Ns: []*N{fn}})
	case 2:
		out = append(out, &N{K: "var", Ps: []string{name}, Ns: []*N{fn}})
	default:
		out = append(out, &N{K: "let", Ps: []string{name}, Ns: []*N{fn}})
	}
	c.fns = append(c.fns, info)
	if g.chance(60) {
		out = append(out, g.callStmt(c))
	}
	return out
}

// recursion emits a self-recursive function with fuel and a call to it.
func (g *G) recursion(c *gctx) []*N {
	g.nextFn++
	idx := g.nextFn
	name := fmt.Sprintf("r%d", idx)
	v := g.name()
	fc := c.sub()
	fc.inLoop, fc.canRet, fc.ret, fc.fnIdx, fc.flat = false, true, "int", idx, false
	fc.anc = append(fc.anc, idx)
	pre := g.block(fc, g.n(0, 2, "recpre"))
	post := g.block(fc, g.n(0, 2, "recpost"))
	body := []*N{
		{K: "if", Ns: []*N{Bin("<=", Id("n"), Int(0))}, Ss: [][]*N{{{K: "ret", Ns: []*N{g.val()}}}}},
		{K: "var", Ps: []string{v}, Ns: []*N{Bin("+", Id("n"), Int(100))}},
	}
	body = append(body, pre...)
	body = append(body, &N{K: "let", Ps: []string{"rr"}, Ns: []*N{{K: "call", S: name, Ns: []*N{Bin("-", Id("n"), Int(1))}}}})
	body = append(body, &N{K: "expr", Ns: []*N{P1(g.id(), Id(v))}}) // own local must be intact after the recursive call
	body = append(body, post...)
	body = append(body, &N{K: "ret", Ns: []*N{Bin("+", Id("rr"), Int(1))}})
	g.feat("recursion")
	return []*N{
		{K: "expr", Ns: []*N{{K: "fn", S: name, Ps: []string{"n"}, Ss: [][]*N{body}}}},
		{K: "expr", Ns: []*N{P1(g.id(), &N{K: "call", S: name, Ns: []*N{Int(int64(g.n(0, 3, "fuel")))}})}},
	}
}

// ---------- compound statements ----------

func (g *G) ifStmt(c *gctx) *N {
	n := g.n(1, 3, "ifarms")
	s := &N{K: "if"}
	for i := 0; i < n; i++ {
		k := c.sub()
		s.Ns = append(s.Ns, g.cond(c, 2))
		s.Ss = append(s.Ss, g.block(k, g.n(0, g.prof.MaxStmts, "ifn")))
		c.keep(k, g)
	}
	if g.chance(50) {
		k := c.sub()
		s.B = true
		s.Ss = append(s.Ss, g.block(k, g.n(0, g.prof.MaxStmts, "elsen")))
		c.keep(k, g)
	}
	return s
}

func (g *G) ctr() string { g.nextCtr++; return fmt.Sprintf("k%d", g.nextCtr) }

func (g *G) loopStmt(c *gctx) []*N {
	k := c.sub()
	k.inLoop = true
	bound := int64(g.n(1, 4, "bound"))
	nb := g.n(0, g.prof.MaxStmts, "loopn")
	var out []*N
	switch g.n(0, 5, "loopkind") {
	case 0: // for { guard; body }
		ctr := g.ctr()
		body := []*N{
			{K: "let", Ps: []string{ctr}, Ns: []*N{Bin("+", Id(ctr), Int(1))}},
			{K: "if", Ns: []*N{Bin(">", Id(ctr), Int(bound))}, Ss: [][]*N{{{K: "break"}}}},
		}
		body = append(body, g.block(k, nb)...)
		out = []*N{{K: "var", Ps: []string{ctr}, Ns: []*N{Int(0)}}, {K: "loop", Ss: [][]*N{body}}}
		g.feat("loop_infinite")
	case 1: // for cond { ctr++; body }
		ctr := g.ctr()
		cond := Bin("<", Id(ctr), Int(bound))
		if g.chance(40) {
			cond = &N{K: "and", Ns: []*N{cond, g.cond(c, 1)}}
		}
		body := []*N{{K: "let", Ps: []string{ctr}, Ns: []*N{Bin("+", Id(ctr), Int(1))}}}
		body = append(body, g.block(k, nb)...)
		out = []*N{{K: "var", Ps: []string{ctr}, Ns: []*N{Int(0)}}, {K: "loop", Ns: []*N{cond}, Ss: [][]*N{body}}}
		g.feat("loop_cond")
	case 2: // C-style
		ctr := g.ctr()
		post := &N{K: "inc", S: ctr, I: 1}
		var postN *N = post
		if g.chance(30) {
			postN = &N{K: "opas", S: ctr, Ps: []string{"+"}, Ns: []*N{P1(g.id(), Int(1))}} // observable post expression
		}
		body := g.block(k, nb)
		init := &N{K: "let", Ps: []string{ctr}, Ns: []*N{Int(0)}}
		cnd := Bin("<", Id(ctr), Int(bound))
		none := &N{K: "none"}
		switch g.n(0, 10, "cforhdr") {
		case 8:
			// the header that has a condition only: `for ; cond ; { }`. The body runs exactly while the
			// condition holds - not at all when it is false at the start (the counter then starts at the
			// bound). Most bodies carry a guard that is dead code while the condition is honoured and
			// ends (and reports) the loop when it is not, so a wrong loop shows as a trace difference
			// rather than as a hang.
			g.feat("loop_cfor_condition_only")
			start := int64(0)
			if g.chance(25) {
				start = bound
				g.feat("loop_cfor_condition_only_false_at_start")
			}
			c8 := cnd
			if g.chance(35) {
				c8 = &N{K: "and", Ns: []*N{cnd, g.cond(c, 1)}}
			}
			head := []*N{{K: "let", Ps: []string{ctr}, Ns: []*N{Bin("+", Id(ctr), Int(1))}}}
			if g.chance(75) {
				head = append(head, &N{K: "if", Ns: []*N{Bin(">", Id(ctr), Int(bound+1))}, Ss: [][]*N{{{K: "expr", Ns: []*N{P1(g.id(), Id(ctr))}}, {K: "break"}}}})
			}
			if g.chance(50) {
				head = append(head, &N{K: "expr", Ns: []*N{P1(g.id(), Id(ctr))}})
			}
			body = append(head, body...)
			out = []*N{{K: "var", Ps: []string{ctr}, Ns: []*N{Int(start)}}, {K: "cfor", Ns: []*N{none, c8, none}, Ss: [][]*N{body}}}
		case 9:
			// the header that has a post expression only: `for ; ; post { }`, left by break only
			g.feat("loop_cfor_post_only")
			body = append([]*N{{K: "if", Ns: []*N{Bin(">=", Id(ctr), Int(bound))}, Ss: [][]*N{{{K: "break"}}}}}, body...)
			out = []*N{{K: "var", Ps: []string{ctr}, Ns: []*N{Int(0)}}, {K: "cfor", Ns: []*N{none, none, postN}, Ss: [][]*N{body}}}
		case 10:
			// the empty header: `for ; ; { }`, left by break only
			g.feat("loop_cfor_empty_header")
			body = append([]*N{{K: "let", Ps: []string{ctr}, Ns: []*N{Bin("+", Id(ctr), Int(1))}}, {K: "if", Ns: []*N{Bin(">", Id(ctr), Int(bound))}, Ss: [][]*N{{{K: "break"}}}}}, body...)
			out = []*N{{K: "var", Ps: []string{ctr}, Ns: []*N{Int(0)}}, {K: "cfor", Ns: []*N{none, none, none}, Ss: [][]*N{body}}}
		case 6:
			// neither a post expression nor a condition that reads a variable: constant-true condition, left by break only
			g.feat("loop_cfor_constant_condition_without_post")
			body = append([]*N{{K: "let", Ps: []string{ctr}, Ns: []*N{Bin("+", Id(ctr), Int(1))}}, {K: "if", Ns: []*N{Bin(">", Id(ctr), Int(bound))}, Ss: [][]*N{{{K: "break"}}}}}, body...)
			out = []*N{{K: "cfor", Ns: []*N{init, {K: "true"}, none}, Ss: [][]*N{body}}}
		case 7:
			// no condition, no post expression, and the body opens with a declaration of a constant
			g.feat("loop_cfor_without_condition_and_post")
			body = append([]*N{{K: "var", Ps: []string{ctr + "c"}, Ns: []*N{Int(1)}}, {K: "let", Ps: []string{ctr}, Ns: []*N{Bin("+", Id(ctr), Int(1))}}, {K: "if", Ns: []*N{Bin(">", Id(ctr), Int(bound))}, Ss: [][]*N{{{K: "break"}}}}}, body...)
			out = []*N{{K: "cfor", Ns: []*N{init, none, none}, Ss: [][]*N{body}}}
		case 0:
			// no condition: left by break only; continue must still run the post expression
			g.feat("loop_cfor_without_condition")
			body = append([]*N{{K: "if", Ns: []*N{Bin(">=", Id(ctr), Int(bound))}, Ss: [][]*N{{{K: "break"}}}}}, body...)
			out = []*N{{K: "cfor", Ns: []*N{init, none, postN}, Ss: [][]*N{body}}}
		case 1:
			g.feat("loop_cfor_without_init")
			out = []*N{{K: "var", Ps: []string{ctr}, Ns: []*N{Int(0)}}, {K: "cfor", Ns: []*N{none, cnd, postN}, Ss: [][]*N{body}}}
		case 2:
			g.feat("loop_cfor_without_post")
			body = append([]*N{{K: "let", Ps: []string{ctr}, Ns: []*N{Bin("+", Id(ctr), Int(1))}}}, body...)
			out = []*N{{K: "cfor", Ns: []*N{init, cnd, none}, Ss: [][]*N{body}}}
		default:
			out = []*N{{K: "cfor", Ns: []*N{init, cnd, postN}, Ss: [][]*N{body}}}
		}
		g.feat("loop_cfor")
	case 3, 4: // for v in list
		v := g.name()
		n := g.n(0, 4, "listlen")
		l := &N{K: "list"}
		for i := 0; i < n; i++ {
			l.Ns = append(l.Ns, g.val())
		}
		if g.prof.HostChan && g.prof.Control && g.chance(12) {
			// a Go slice of nil pointers bound by the host: every element is visited, each is nil
			g.feat("loop_forin_host_slice_of_nil_pointers")
			l = Id("hnilptrs")
		}
		body := g.block(k, nb)
		out = []*N{{K: "forin", Ps: []string{v}, Ns: []*N{l}, Ss: [][]*N{body}}}
		g.feat("loop_forin_list")
	default: // for k, v in map
		if g.prof.Control && g.chance(25) {
			// keys of different dynamic types that print alike: every entry is visited exactly once
			g.feat("loop_forin_map_keys_printing_alike")
			alike := [][2]*N{{Int(1), Str("1")}, {{K: "true"}, Str("true")}, {Int(0), Str("0")}, {Int(-1), Str("-1")}}
			mp := &N{K: "map"}
			for _, i := range rapid.SliceOfNDistinct(rapid.IntRange(0, len(alike)-1), 1, 3, func(i int) int { return i }).Draw(g.t, "alikepairs") {
				mp.Ns = append(mp.Ns, alike[i][0], g.val(), alike[i][1], g.val())
			}
			body := []*N{{K: "expr", Ns: []*N{P1(-g.id(), &N{K: "list", Ns: []*N{Id("mk"), Id("mv")}})}}}
			return []*N{{K: "forin", Ps: []string{"mk", "mv"}, Ns: []*N{mp}, Ss: [][]*N{body}}}
		}
		n := g.n(0, 3, "maplen")
		mp := &N{K: "map"}
		for i := 0; i < n; i++ {
			mp.Ns = append(mp.Ns, Str(fmt.Sprintf("k%d", i)), g.val())
		}
		vars := []string{"mk"}
		if g.chance(60) {
			vars = append(vars, g.name())
		}
		if n > 1 {
			// multi-entry map: iteration order is random, so the body is restricted to
			// order-insensitive statements and its probes are compared as a multiset
			k.flat = true
			k.inLoop = false
			k.canRet = false
			g.feat("loop_forin_map_multi")
		} else {
			g.feat("loop_forin_map_single")
		}
		body := g.block(k, g.n(1, 3, "mapn"))
		out = []*N{{K: "forin", Ps: vars, Ns: []*N{mp}, Ss: [][]*N{body}}}
	}
	c.keep(k, g)
	return out
}

// flatStmt: statements allowed inside a multi-entry map loop body. The probe id is
// negative: the comparison sorts maximal runs of consecutive entries with negative ids.
func (g *G) flatStmt(c *gctx) []*N {
	switch g.n(0, 3, "flat") {
	case 3:
		// continue for one particular key: the entries probed afterwards form the same
		// multiset whatever the iteration order (break would be order dependent)
		g.feat("continue_in_multi_entry_map_loop")
		return []*N{{K: "if", Ns: []*N{Bin("==", Id("mk"), Str(fmt.Sprintf("k%d", g.n(0, 2, "ck"))))}, Ss: [][]*N{{{K: "cont"}}}}}
	case 0:
		return []*N{{K: "expr", Ns: []*N{P1(-g.id(), Id("mk"))}}}
	case 1:
		return []*N{{K: "let", Ps: []string{"acc"}, Ns: []*N{Bin("+", &N{K: "coal", Ns: []*N{Id("acc"), Int(0)}}, Int(1))}}}
	default:
		return []*N{{K: "if", Ns: []*N{Bin("==", Id("mk"), Str("k1"))}, Ss: [][]*N{{{K: "expr", Ns: []*N{P1(-g.id(), Str("hit"))}}}}}}
	}
}

func (g *G) switchStmt(c *gctx) *N {
	s := &N{K: "switch", Ns: []*N{g.iexpr(c, 1)}}
	// subjects that are not numbers: nil (written out, or the entry a map does not have) and strings;
	// their cases are compared with the same equality, `case nil` matches a nil subject
	subjClass := ""
	if g.prof.Control && g.chance(18) {
		switch g.n(0, 2, "subjclass") {
		case 0:
			subjClass = "nil"
			s.Ns[0] = &N{K: "nil"}
		case 1:
			subjClass = "nil"
			s.Ns[0] = &N{K: "idx", Ns: []*N{{K: "map", Ns: []*N{Str("k"), Int(1)}}, Str("zz")}}
		default:
			subjClass = "str"
			s.Ns[0] = Str(rapid.SampledFrom([]string{"s1", "s2", ""}).Draw(g.t, "subjstr"))
		}
		g.feat("switch_subject_" + subjClass)
	}
	n := g.n(0, 3, "cases")
	defAt := -1
	if g.chance(60) {
		defAt = g.n(0, n, "defat")
	}
	for i := 0; i <= n; i++ {
		if i == defAt {
			k := c.sub()
			s.Ns = append(s.Ns, &N{K: "default", Ss: [][]*N{g.block(k, g.n(0, 3, "defn"))}})
			c.keep(k, g)
		}
		if i == n {
			break
		}
		k := c.sub()
		cn := &N{K: "case"}
		for j := g.n(1, 3, "caseexprs"); j > 0; j-- {
			ck := g.n(0, 2, "casek")
			if g.prof.Control && g.chance(20) {
				ck = 3
			}
			if subjClass != "" && g.chance(70) {
				ck = 4
			}
			switch ck {
			case 4:
				if subjClass == "nil" || g.chance(30) {
					cn.Ns = append(cn.Ns, &N{K: "nil"})
				} else {
					cn.Ns = append(cn.Ns, Str(rapid.SampledFrom([]string{"s1", "s2", ""}).Draw(g.t, "casestr")))
				}
			case 3:
				// a float case against the integer subject: equal only when whole-valued and the same number
				g.feat("switch_float_case")
				f := float64(g.n(0, 14, "casev"))
				if g.chance(60) {
					f += 0.5
				}
				cn.Ns = append(cn.Ns, &N{K: "flt", I: int64(math.Float64bits(f))})
			case 0:
				cn.Ns = append(cn.Ns, Int(int64(g.n(0, 14, "casev"))))
			case 1:
				cn.Ns = append(cn.Ns, Id(g.name()))
			default:
				cn.Ns = append(cn.Ns, P1(g.id(), Int(int64(g.n(0, 14, "casev")))))
			}
		}
		cn.Ss = [][]*N{g.block(k, g.n(0, 3, "casen"))}
		c.keep(k, g)
		s.Ns = append(s.Ns, cn)
	}
	g.feat("switch")
	return s
}

func (g *G) tryStmt(c *gctx) *N {
	s := &N{K: "try"}
	// try body: break/continue/return may not leave it directly (finding F-try-signal)
	tb := c.sub()
	if tb.inLoop || tb.canRet {
		g.feat("excluded_signal_in_try_body")
	}
	tb.inLoop = false
	tb.canRet = false
	tryBody := g.block(tb, g.n(0, g.prof.MaxStmts, "tryn"))
	pattern := g.prof.Errors && g.chance(30)
	if pattern {
		// a binding made inside the try block, then a certain error: whatever way the catch
		// block is left, the binding must be gone afterwards
		g.feat("try_binds_then_throws")
		tryBody = append([]*N{{K: "var", Ps: []string{g.name()}, Ns: []*N{g.val()}}}, tryBody...)
		tryBody = append(tryBody, &N{K: "throw", Ns: []*N{g.thrown(c)}})
	}
	s.Ss = append(s.Ss, tryBody)
	c.keep(tb, g)
	cb := c.sub()
	if g.chance(60) {
		s.S = rapid.SampledFrom([]string{"e", "e2", "err"}).Draw(g.t, "catchvar")
		body := g.block(cb, g.n(0, 3, "catchn"))
		body = append([]*N{{K: "expr", Ns: []*N{P1(g.id(), Id(s.S))}}}, body...)
		s.Ss = append(s.Ss, body)
	} else {
		s.Ss = append(s.Ss, g.block(cb, g.n(0, 3, "catchn")))
	}
	if pattern {
		// leave the catch block abruptly where the context allows it
		var exits []*N
		if cb.inLoop {
			exits = append(exits, &N{K: "cont"}, &N{K: "break"})
		}
		if cb.canRet {
			exits = append(exits, g.retStmt(cb))
		}
		if len(exits) > 0 && g.chance(70) {
			e := exits[g.n(0, len(exits)-1, "catchexit")]
			if g.chance(50) {
				e = &N{K: "if", Ns: []*N{g.cond(c, 1)}, Ss: [][]*N{{e}}}
			}
			s.Ss[1] = append(s.Ss[1], e)
			g.feat("catch_left_abruptly_by_construction")
		}
	}
	c.keep(cb, g)
	if g.chance(50) {
		fb := c.sub()
		s.B = true
		s.Ss = append(s.Ss, g.block(fb, g.n(0, 3, "finn")))
		c.keep(fb, g)
	}
	g.feat("try")
	return s
}

func (g *G) deferStmt(c *gctx) *N {
	g.feat("defer")
	switch g.n(0, 3, "deferkind") {
	case 0:
		return &N{K: "defer", Ns: []*N{P1(g.id(), g.iexpr(c, 1))}}
	case 1:
		if f, ok := g.pickFn(c, ""); ok {
			call := g.callExpr(c, f, 1)
			return &N{K: "defer", Ns: []*N{call}}
		}
		return &N{K: "defer", Ns: []*N{P1(g.id(), Id(g.name()))}}
	case 2:
		// deferred closure literal, possibly raising or containing try/defer itself
		g.nextFn++
		fc := c.sub()
		fc.inLoop, fc.canRet, fc.ret, fc.fnIdx, fc.flat = false, true, "none", g.nextFn, false
		fc.anc = append(fc.anc, g.nextFn)
		body := g.block(fc, g.n(1, 3, "dcn"))
		body = append(body, &N{K: "ret"})
		return &N{K: "defer", Ns: []*N{{K: "acall", Ns: []*N{{K: "fn", Ss: [][]*N{body}}}}}}
	default:
		return &N{K: "defer", Ns: []*N{{K: "pfail", I: g.id()}}}
	}
}

// deferAfterReturnedSlot: a function returns an element of a list (or the value of a plain variable) and
// a deferred closure assigns to that element / variable afterwards: deferred calls do not alter the
// invocation's result. Third form: the body fails by a host panic, a deferred closure fails too.
func (g *G) deferAfterReturnedSlot(c *gctx) []*N {
	g.nextFn++
	fn := fmt.Sprintf("dr%d", g.nextFn)
	v1, v2 := g.val(), g.val()
	var body []*N
	switch g.n(0, 3, "drform") {
	case 0:
		g.feat("deferred_call_assigns_the_returned_list_element")
		body = []*N{
			{K: "let", Ps: []string{"la"}, Ns: []*N{{K: "list", Ns: []*N{v1, g.val()}}}},
			{K: "defer", Ns: []*N{{K: "acall", Ns: []*N{{K: "fn", Ss: [][]*N{{{K: "letidx", Ns: []*N{Id("la"), Int(0), v2}}, {K: "expr", Ns: []*N{P1(g.id(), &N{K: "idx", Ns: []*N{Id("la"), Int(0)}})}}, {K: "ret"}}}}}}}},
			{K: "ret", Ns: []*N{{K: "idx", Ns: []*N{Id("la"), Int(0)}}}},
		}
	case 3:
		// the argument of a deferred call is a list element that is assigned afterwards: the call gets the
		// value the element had at the defer statement
		g.feat("deferred_argument_is_an_element_assigned_later")
		body = []*N{
			{K: "let", Ps: []string{"la"}, Ns: []*N{{K: "list", Ns: []*N{v1, g.val()}}}},
			{K: "defer", Ns: []*N{P1(g.id(), &N{K: "idx", Ns: []*N{Id("la"), Int(0)}})}},
			{K: "letidx", Ns: []*N{Id("la"), Int(0), v2}},
			{K: "ret", Ns: []*N{{K: "idx", Ns: []*N{Id("la"), Int(1)}}}},
		}
	case 1:
		g.feat("deferred_call_assigns_the_returned_variable")
		body = []*N{
			{K: "var", Ps: []string{"lv"}, Ns: []*N{v1}},
			{K: "defer", Ns: []*N{{K: "acall", Ns: []*N{{K: "fn", Ss: [][]*N{{{K: "let", Ps: []string{"lv"}, Ns: []*N{v2}}, {K: "expr", Ns: []*N{P1(g.id(), Id("lv"))}}, {K: "ret"}}}}}}}},
			{K: "ret", Ns: []*N{Id("lv")}},
		}
	default:
		// the body fails by a panic of a host function at its own level (not an error coming out of a nested
		// script call) and a deferred closure fails too, with another text: the body's error is the one that
		// surfaces
		g.feat("body_fails_by_host_panic_and_deferred_call_fails_too")
		body = []*N{
			{K: "defer", Ns: []*N{{K: "acall", Ns: []*N{{K: "fn", Ss: [][]*N{{{K: "expr", Ns: []*N{P(g.id())}}, {K: "throw", Ns: []*N{Str(fmt.Sprintf("D%d", g.id()))}}}}}}}}},
			{K: "expr", Ns: []*N{{K: "pfail", I: g.id()}}},
			{K: "ret", Ns: []*N{v1}},
		}
		return []*N{
			{K: "expr", Ns: []*N{{K: "fn", S: fn, Ss: [][]*N{body}}}},
			{K: "try", S: "e", Ss: [][]*N{{{K: "expr", Ns: []*N{P1(g.id(), Call(fn))}}}, {{K: "expr", Ns: []*N{P1(g.id(), Id("e"))}}}}},
		}
	}
	return []*N{
		{K: "expr", Ns: []*N{{K: "fn", S: fn, Ss: [][]*N{body}}}},
		{K: "expr", Ns: []*N{P1(g.id(), Call(fn))}},
	}
}

// deferRebind: ONE `defer name(args)` statement is executed several times while the name is bound to
// a different function each time (a callback parameter, a variable rebound between the calls, a loop
// variable): every execution registers the function the name holds at that moment.
func (g *G) deferRebind(c *gctx) []*N {
	g.feat("defer_same_statement_different_callees")
	g.nextFn++
	w := fmt.Sprintf("dw%d", g.nextFn)
	lit := func() *N {
		return &N{K: "fn", Ps: []string{"a"}, Ss: [][]*N{{{K: "expr", Ns: []*N{P1(g.id(), Id("a"))}}, {K: "ret", Ns: []*N{Int(0)}}}}}
	}
	n := g.n(2, 3, "rebinds")
	var out []*N
	switch g.n(0, 2, "rebindform") {
	case 0:
		// the callee is a parameter of the enclosing function
		out = append(out, &N{K: "expr", Ns: []*N{{K: "fn", S: w, Ps: []string{"cb"}, Ss: [][]*N{{
			{K: "defer", Ns: []*N{Call("cb", P1(g.id(), Int(int64(g.n(1, 9, "dv")))))}},
			{K: "expr", Ns: []*N{P(g.id())}},
			{K: "ret", Ns: []*N{Int(1)}},
		}}}}})
		for i := 0; i < n; i++ {
			out = append(out, &N{K: "expr", Ns: []*N{Call(w, lit())}})
		}
	case 1:
		// the callee is a variable of the enclosing scope, rebound between the calls
		hold := w + "h"
		out = append(out, &N{K: "let", Ps: []string{hold}, Ns: []*N{lit()}})
		out = append(out, &N{K: "expr", Ns: []*N{{K: "fn", S: w, Ss: [][]*N{{
			{K: "defer", Ns: []*N{Call(hold, Int(int64(g.n(1, 9, "dv"))))}},
			{K: "ret", Ns: []*N{Int(1)}},
		}}}}})
		for i := 0; i < n; i++ {
			if i > 0 {
				out = append(out, &N{K: "let", Ps: []string{hold}, Ns: []*N{lit()}})
			}
			out = append(out, &N{K: "expr", Ns: []*N{Call(w)}})
		}
	default:
		// the callee is the variable of a loop inside one invocation: the calls run last-registered first
		lst := &N{K: "list"}
		for i := 0; i < n; i++ {
			lst.Ns = append(lst.Ns, lit())
		}
		out = append(out, &N{K: "expr", Ns: []*N{{K: "fn", S: w, Ss: [][]*N{{
			{K: "forin", Ps: []string{"df"}, Ns: []*N{lst}, Ss: [][]*N{{{K: "defer", Ns: []*N{Call("df", P1(g.id(), Int(int64(g.n(1, 9, "dv")))))}}}}},
			{K: "ret", Ns: []*N{Int(1)}},
		}}}}})
		out = append(out, &N{K: "expr", Ns: []*N{Call(w)}})
	}
	return out
}

func (g *G) moduleStmt(c *gctx) []*N {
	g.nextMod++
	name := fmt.Sprintf("m%d", g.nextMod)
	k := c.sub()
	k.inLoop, k.canRet = false, false
	member := g.name()
	body := []*N{{K: "var", Ps: []string{member}, Ns: []*N{g.val()}}}
	body = append(body, g.block(k, g.n(0, 3, "modn"))...)
	g.feat("module")
	return []*N{
		{K: "module", S: name, Ss: [][]*N{body}},
		{K: "expr", Ns: []*N{P1(g.id(), &N{K: "mem", Ns: []*N{Id(name)}, S: member})}},
		{K: "expr", Ns: []*N{P1(g.id(), Id(member))}},
	}
}

// ---------- by-construction scope patterns (Profile.Cross) ----------

// binder returns statements that bind the fresh name z in the block they are put in, using one
// of the binding forms of the language; the second result is a name bound alongside (or "").
func (g *G) binder(c *gctx, z string) ([]*N, string) {
	hi := 8
	if g.prof.HostChan {
		hi = 10
	}
	switch g.n(0, hi, "binder") {
	case 0:
		g.feat("binder_let")
		return []*N{{K: "let", Ps: []string{z}, Ns: []*N{g.val()}}}, ""
	case 1:
		g.feat("binder_var")
		return []*N{{K: "var", Ps: []string{z}, Ns: []*N{g.val()}}}, ""
	case 2:
		g.feat("binder_multi_let")
		return []*N{{K: "let", Ps: []string{z, z + "b"}, Ns: []*N{g.val(), g.val()}}}, z + "b"
	case 3:
		g.feat("binder_map_lookup_two_values")
		key := rapid.SampledFrom([]string{"k", "missing"}).Draw(g.t, "lookupkey")
		return []*N{{K: "letmap", Ps: []string{z, z + "b"}, Ns: []*N{{K: "map", Ns: []*N{Str("k"), g.val()}}, Str(key)}}}, z + "b"
	case 4:
		g.feat("binder_func_statement")
		return []*N{{K: "expr", Ns: []*N{{K: "fn", S: z, Ss: [][]*N{{{K: "ret", Ns: []*N{g.val()}}}}}}}}, ""
	case 5:
		g.feat("binder_forin_variable")
		return []*N{{K: "forin", Ps: []string{z}, Ns: []*N{{K: "list", Ns: []*N{g.val()}}}, Ss: [][]*N{{{K: "expr", Ns: []*N{P1(g.id(), Id(z))}}}}}}, ""
	case 6:
		g.feat("binder_catch_variable")
		return []*N{{K: "try", S: z, Ss: [][]*N{{{K: "throw", Ns: []*N{Str("E")}}}, {{K: "expr", Ns: []*N{P1(g.id(), Id(z))}}}}}}, ""
	case 7:
		g.feat("binder_module")
		return []*N{{K: "module", S: z, Ss: [][]*N{{{K: "var", Ps: []string{"mm"}, Ns: []*N{g.val()}}}}}}, ""
	case 8:
		g.feat("binder_var_two")
		return []*N{{K: "var", Ps: []string{z, z + "b"}, Ns: []*N{g.val(), g.val()}}}, z + "b"
	case 9:
		g.feat("binder_chan_receive")
		return []*N{{K: "letchan", Ps: []string{z}, Ns: []*N{g.val()}}}, ""
	default:
		g.feat("binder_chan_receive_two_values")
		return []*N{{K: "letchan", Ps: []string{z, z + "b"}, Ns: []*N{g.val()}}}, z + "b"
	}
}

// probeName observes whether a name is bound (and its value when it is an int).
func (g *G) probeName(nm string) *N {
	return &N{K: "try", Ss: [][]*N{
		{{K: "expr", Ns: []*N{P1(g.id(), &N{K: "coal", Ns: []*N{Bin("+", Id(nm), Int(0)), Str("bound")}})}}},
		{{K: "expr", Ns: []*N{P1(g.id(), Str("undef"))}}},
	}}
}

// existOnly observes only whether a name is bound, whatever its value.
func (g *G) existOnly(nm string) *N {
	return &N{K: "try", Ss: [][]*N{
		{{K: "expr", Ns: []*N{Id(nm)}}, {K: "expr", Ns: []*N{P1(g.id(), Str("bound"))}}},
		{{K: "expr", Ns: []*N{P1(g.id(), Str("undef"))}}},
	}}
}

// scopeCross binds a fresh name with one binder form inside one block form, with nothing else in
// that block but probes, and observes the name inside the block, after it, and after the
// enclosing statement.
func (g *G) scopeCross(c *gctx) []*N {
	z := fmt.Sprintf("z%d", g.id())
	bind, second := g.binder(c, z)
	inner := append([]*N{}, bind...)
	if g.chance(50) {
		inner = append(inner, g.existOnly(z))
	}
	if g.chance(30) {
		inner = append([]*N{{K: "expr", Ns: []*N{P1(g.id(), Id(g.name()))}}}, inner...)
	}
	after := []*N{g.existOnly(z)}
	if second != "" {
		after = append(after, g.existOnly(second))
	}
	yes := func() *N {
		if g.chance(70) {
			return &N{K: "true"}
		}
		return g.cond(c, 1)
	}
	var out []*N
	switch g.n(0, 12, "blockform") {
	case 0:
		g.feat("cross_if_then")
		out = []*N{{K: "if", Ns: []*N{yes()}, Ss: [][]*N{inner}}}
	case 1:
		g.feat("cross_else")
		out = []*N{{K: "if", Ns: []*N{{K: "false"}}, Ss: [][]*N{{}, inner}, B: true}}
	case 2:
		g.feat("cross_else_if")
		out = []*N{{K: "if", Ns: []*N{{K: "false"}, yes()}, Ss: [][]*N{{}, inner}}}
	case 3:
		g.feat("cross_forin_body")
		out = []*N{{K: "forin", Ps: []string{"it"}, Ns: []*N{{K: "list", Ns: []*N{g.val(), g.val()}}}, Ss: [][]*N{inner}}}
	case 4:
		g.feat("cross_loop_body")
		ctr := g.ctr()
		body := append([]*N{{K: "let", Ps: []string{ctr}, Ns: []*N{Bin("+", Id(ctr), Int(1))}}}, inner...)
		out = []*N{{K: "var", Ps: []string{ctr}, Ns: []*N{Int(0)}}, {K: "loop", Ns: []*N{Bin("<", Id(ctr), Int(2))}, Ss: [][]*N{body}}}
	case 5:
		g.feat("cross_cfor_body")
		ctr := g.ctr()
		out = []*N{{K: "cfor", Ns: []*N{{K: "let", Ps: []string{ctr}, Ns: []*N{Int(0)}}, Bin("<", Id(ctr), Int(2)), {K: "inc", S: ctr, I: 1}}, Ss: [][]*N{inner}}}
	case 6:
		g.feat("cross_switch_case")
		out = []*N{{K: "switch", Ns: []*N{Int(1), {K: "case", Ns: []*N{Int(1)}, Ss: [][]*N{inner}}}}}
	case 7:
		g.feat("cross_switch_default")
		out = []*N{{K: "switch", Ns: []*N{Int(1), {K: "case", Ns: []*N{Int(2)}, Ss: [][]*N{{}}}, {K: "default", Ss: [][]*N{inner}}}}}
	case 8:
		g.feat("cross_try_body")
		out = []*N{{K: "try", Ss: [][]*N{inner, {}}}}
	case 9:
		g.feat("cross_catch_body")
		out = []*N{{K: "try", Ss: [][]*N{{{K: "throw", Ns: []*N{Str("E")}}}, inner}}}
	case 10:
		g.feat("cross_finally_body")
		out = []*N{{K: "try", B: true, Ss: [][]*N{{}, {}, inner}}}
	case 11:
		g.feat("cross_function_body")
		out = []*N{{K: "expr", Ns: []*N{{K: "acall", Ns: []*N{{K: "fn", Ss: [][]*N{append(inner, &N{K: "ret"})}}}}}}}
	default:
		g.feat("cross_module_body")
		g.nextMod++
		out = []*N{{K: "module", S: fmt.Sprintf("m%d", g.nextMod), Ss: [][]*N{inner}}}
	}
	g.feat("scope_cross")
	return append(out, after...)
}

// shadowCross: a name is bound in the current scope; then one of the forms that ALWAYS bind in their own
// block or invocation (var inside a block, a for-in variable over a list or over a channel, a catch
// variable, a function parameter) binds the same name; afterwards the outer binding must be what it was.
func (g *G) shadowCross(c *gctx) []*N {
	z := fmt.Sprintf("z%d", g.id())
	keep := g.val()
	out := []*N{{K: "let", Ps: []string{z}, Ns: []*N{keep}}}
	see := func() *N { return &N{K: "expr", Ns: []*N{P1(g.id(), Id(z))}} }
	hi := 5
	if g.prof.HostChan {
		hi = 7
	}
	switch g.n(0, hi, "shadowform") {
	case 0:
		g.feat("shadow_var_in_block")
		out = append(out, &N{K: "if", Ns: []*N{{K: "true"}}, Ss: [][]*N{{{K: "var", Ps: []string{z}, Ns: []*N{g.val()}}, see()}}})
	case 1:
		g.feat("shadow_forin_variable")
		out = append(out, &N{K: "forin", Ps: []string{z}, Ns: []*N{{K: "list", Ns: []*N{g.val(), g.val()}}}, Ss: [][]*N{{see()}}})
	case 2:
		g.feat("shadow_catch_variable")
		out = append(out, &N{K: "try", S: z, Ss: [][]*N{{{K: "throw", Ns: []*N{Str("E")}}}, {see()}}})
	case 3:
		g.feat("shadow_function_parameter")
		out = append(out, &N{K: "expr", Ns: []*N{{K: "acall", Ns: []*N{{K: "fn", Ps: []string{z}, Ss: [][]*N{{see(), {K: "let", Ps: []string{z}, Ns: []*N{g.val()}}, {K: "ret", Ns: []*N{Id(z)}}}}}, g.val()}}}})
	case 4:
		g.feat("shadow_catch_variable_inside_function")
		g.nextFn++
		fn := fmt.Sprintf("sc%d", g.nextFn)
		out = append(out, &N{K: "expr", Ns: []*N{{K: "fn", S: fn, Ss: [][]*N{{{K: "try", S: z, Ss: [][]*N{{{K: "throw", Ns: []*N{Str("E")}}}, {see()}}}, {K: "ret", Ns: []*N{Int(0)}}}}}}})
		out = append(out, &N{K: "expr", Ns: []*N{Call(fn)}})
	case 5:
		g.feat("shadow_var_in_loop_body")
		ctr := g.ctr()
		out = append(out, &N{K: "cfor", Ns: []*N{{K: "let", Ps: []string{ctr}, Ns: []*N{Int(0)}}, Bin("<", Id(ctr), Int(2)), {K: "inc", S: ctr, I: 1}}, Ss: [][]*N{{{K: "var", Ps: []string{z}, Ns: []*N{g.val()}}, see()}}})
	default:
		// for-in over a channel (closed, holding the items): the loop variable is bound like over a list
		g.feat("shadow_forin_variable_over_channel")
		out = append(out, &N{K: "forin", B: true, Ps: []string{z}, Ns: []*N{{K: "list", Ns: []*N{g.val(), g.val()}}}, Ss: [][]*N{{see()}}})
	}
	return append(out, see())
}

// condRaises: a `for cond { }` loop whose condition raises an error on its second round, after the body
// has declared a name that an enclosing scope binds too; the loop sits in a try block whose catch block
// reads the name: it must see the enclosing binding (the loop's scope is gone).
func (g *G) condRaises(c *gctx) []*N {
	g.feat("loop_condition_raises_after_body_shadowed_a_name")
	z := fmt.Sprintf("z%d", g.id())
	ctr := g.ctr()
	cond := &N{K: "or", Ns: []*N{Bin("<", Id(ctr), Int(1)), Id("zz")}} // zz is never bound: the second round fails
	if g.chance(40) {
		cond = &N{K: "or", Ns: []*N{Bin("<", Id(ctr), Int(1)), {K: "pfail", I: g.id()}}}
	}
	body := []*N{{K: "var", Ps: []string{z}, Ns: []*N{g.val()}}, {K: "let", Ps: []string{ctr}, Ns: []*N{Bin("+", Id(ctr), Int(1))}}, {K: "expr", Ns: []*N{P1(g.id(), Id(z))}}}
	return []*N{
		{K: "let", Ps: []string{z}, Ns: []*N{g.val()}},
		{K: "var", Ps: []string{ctr}, Ns: []*N{Int(0)}},
		{K: "try", B: g.chance(50), Ss: [][]*N{{{K: "loop", Ns: []*N{cond}, Ss: [][]*N{body}}}, {{K: "expr", Ns: []*N{P1(g.id(), Id(z))}}}, {{K: "expr", Ns: []*N{P1(g.id(), Id(z))}}}}},
		{K: "expr", Ns: []*N{P1(g.id(), Id(z))}},
	}
}

// returnListAlias: `return la[0], f()` where f assigns la[0]: the values of a return list are the values
// the expressions had when they were evaluated, left to right.
func (g *G) returnListAlias(c *gctx) []*N {
	g.feat("return_list_element_then_call_that_assigns_it")
	g.nextFn++
	fn := fmt.Sprintf("ra%d", g.nextFn)
	v1, v3, v4 := g.val(), g.val(), g.val()
	setter := &N{K: "acall", Ns: []*N{{K: "fn", Ss: [][]*N{{{K: "letidx", Ns: []*N{Id("la"), Int(0), v3}}, {K: "ret", Ns: []*N{v4}}}}}}}
	ret := &N{K: "ret", Ns: []*N{{K: "idx", Ns: []*N{Id("la"), Int(0)}}, setter}}
	if g.chance(30) {
		ret = &N{K: "ret", Ns: []*N{{K: "idx", Ns: []*N{Id("la"), Int(0)}}, setter, {K: "idx", Ns: []*N{Id("la"), Int(0)}}}}
	}
	body := []*N{{K: "let", Ps: []string{"la"}, Ns: []*N{{K: "list", Ns: []*N{v1, g.val()}}}}, ret}
	return []*N{
		{K: "expr", Ns: []*N{{K: "fn", S: fn, Ss: [][]*N{body}}}},
		{K: "expr", Ns: []*N{P1(g.id(), Call(fn))}},
	}
}

// freshLiteral: an empty map literal is read, then written into - in a function called twice, or in a loop:
// every evaluation of a literal makes a new, empty container (also when the same parsed program runs again).
func (g *G) freshLiteral(c *gctx) []*N {
	g.feat("empty_map_literal_evaluated_again")
	read := func() *N {
		return &N{K: "expr", Ns: []*N{P1(g.id(), &N{K: "coal", Ns: []*N{{K: "idx", Ns: []*N{Id("fm"), Str("k")}}, Str("none")}})}}
	}
	write := &N{K: "letidx", Ns: []*N{Id("fm"), Str("k"), g.val()}}
	if g.chance(50) {
		return []*N{{K: "forin", Ps: []string{"it"}, Ns: []*N{{K: "list", Ns: []*N{Int(1), Int(2)}}}, Ss: [][]*N{{{K: "let", Ps: []string{"fm"}, Ns: []*N{{K: "map"}}}, read(), write}}}}
	}
	return []*N{{K: "let", Ps: []string{"fm"}, Ns: []*N{{K: "map"}}}, read(), write, read()}
}

// longForBreak: a for-in over a list of several hundred elements left by break (or skipping by continue)
// at a chosen element: break ends the loop, whatever the length of the list.
func (g *G) longForBreak(c *gctx) []*N {
	g.feat("long_forin_left_by_break")
	n := []int{300, 520, 777}[g.n(0, 2, "longn")]
	k := []int{3, 100, 255, 256, 257, 300, 511, 512}[g.n(0, 7, "breakat")]
	lst := &N{K: "list"}
	for i := 0; i < n; i++ {
		lst.Ns = append(lst.Ns, Int(int64(i)))
	}
	cnt := fmt.Sprintf("lc%d", g.id())
	exit := &N{K: "break"}
	body := []*N{{K: "if", Ns: []*N{Bin("==", Id("lv"), Int(int64(k)))}, Ss: [][]*N{{exit}}}, {K: "let", Ps: []string{cnt}, Ns: []*N{Bin("+", Id(cnt), Int(1))}}}
	if g.chance(30) {
		// continue at every element but a few: the loop still visits every element once
		body = []*N{{K: "if", Ns: []*N{Bin("!=", Bin("%", Id("lv"), Int(int64(k+1))), Int(0))}, Ss: [][]*N{{{K: "cont"}}}}, {K: "let", Ps: []string{cnt}, Ns: []*N{Bin("+", Id(cnt), Int(1))}}}
	}
	return []*N{
		{K: "var", Ps: []string{cnt}, Ns: []*N{Int(0)}},
		{K: "forin", Ps: []string{"lv"}, Ns: []*N{lst}, Ss: [][]*N{body}},
		{K: "expr", Ns: []*N{P1(g.id(), Id(cnt))}},
	}
}

// moduleAbrupt: the body of a module statement is left early - by continue or break to an enclosing
// loop, by return from the enclosing function, by an error caught outside - and right afterwards a name
// that only the module binds is probed: the module's bindings are reachable only through the module's name.
func (g *G) moduleAbrupt(c *gctx) []*N {
	g.nextMod++
	mod := fmt.Sprintf("ma%d", g.nextMod)
	mq := fmt.Sprintf("mq%d", g.nextMod)
	decl := &N{K: "var", Ps: []string{mq}, Ns: []*N{g.val()}}
	switch g.n(0, 3, "modexit") {
	case 0:
		g.feat("module_body_left_by_continue")
		return []*N{{K: "forin", Ps: []string{"it"}, Ns: []*N{{K: "list", Ns: []*N{Int(1), Int(2)}}}, Ss: [][]*N{{g.existOnly(mq), {K: "module", S: mod, Ss: [][]*N{{decl, {K: "cont"}}}}, {K: "expr", Ns: []*N{P(g.id())}}}}}, g.existOnly(mq)}
	case 1:
		g.feat("module_body_left_by_break")
		return []*N{{K: "forin", Ps: []string{"it"}, Ns: []*N{{K: "list", Ns: []*N{Int(1), Int(2)}}}, Ss: [][]*N{{{K: "module", S: mod, Ss: [][]*N{{decl, {K: "break"}}}}, {K: "expr", Ns: []*N{P(g.id())}}}}}, g.existOnly(mq)}
	case 2:
		g.feat("module_body_left_by_return")
		g.nextFn++
		fn := fmt.Sprintf("mf%d", g.nextFn)
		v := g.val()
		return []*N{
			{K: "expr", Ns: []*N{{K: "fn", S: fn, Ss: [][]*N{{{K: "module", S: mod, Ss: [][]*N{{decl, {K: "ret", Ns: []*N{v}}}}}, {K: "expr", Ns: []*N{P(g.id())}}, {K: "ret", Ns: []*N{Int(0)}}}}}}},
			{K: "expr", Ns: []*N{P1(g.id(), Call(fn))}},
			g.existOnly(mq),
		}
	default:
		g.feat("module_body_left_by_error")
		return []*N{{K: "try", Ss: [][]*N{{{K: "module", S: mod, Ss: [][]*N{{decl, {K: "throw", Ns: []*N{Str("E")}}}}}}, {g.existOnly(mq)}}}, g.existOnly(mq)}
	}
}

// lateShadow: a closure made inside a nested block of a function assigns a pool name; it is called,
// then the function declares that name itself (a binding BETWEEN the closure's scope and the outer
// one), then the closure is called again: every assignment goes to the binding that is nearest at the
// time it runs, however the name resolved before.
func (g *G) lateShadow(c *gctx) []*N {
	g.feat("assignment_target_shadowed_between_two_calls_of_a_closure")
	g.nextFn++
	fn := fmt.Sprintf("ls%d", g.nextFn)
	x := g.name()
	setter := &N{K: "fn", Ps: []string{"v"}, Ss: [][]*N{{{K: "let", Ps: []string{x}, Ns: []*N{Id("v")}}, {K: "ret", Ns: []*N{Id(x)}}}}}
	var mk []*N
	switch g.n(0, 3, "lsnest") {
	case 0:
		mk = []*N{{K: "if", Ns: []*N{{K: "true"}}, Ss: [][]*N{{{K: "let", Ps: []string{"set"}, Ns: []*N{setter}}}}}}
	case 1:
		mk = []*N{{K: "forin", Ps: []string{"it"}, Ns: []*N{{K: "list", Ns: []*N{Int(1)}}}, Ss: [][]*N{{{K: "let", Ps: []string{"set"}, Ns: []*N{setter}}}}}}
	case 2:
		mk = []*N{{K: "switch", Ns: []*N{Int(1), {K: "case", Ns: []*N{Int(1)}, Ss: [][]*N{{{K: "let", Ps: []string{"set"}, Ns: []*N{setter}}}}}}}}
	default:
		mk = []*N{{K: "let", Ps: []string{"set"}, Ns: []*N{setter}}}
	}
	body := []*N{{K: "var", Ps: []string{"set"}, Ns: []*N{{K: "nil"}}}}
	body = append(body, mk...)
	calls := g.n(1, 2, "lscalls")
	for i := 0; i < calls; i++ {
		body = append(body, &N{K: "expr", Ns: []*N{P1(g.id(), Call("set", g.val()))}})
	}
	body = append(body, &N{K: "var", Ps: []string{x}, Ns: []*N{g.val()}})
	body = append(body, &N{K: "expr", Ns: []*N{P1(g.id(), Call("set", g.val()))}})
	body = append(body, &N{K: "expr", Ns: []*N{P1(g.id(), Id(x))}})
	body = append(body, &N{K: "ret", Ns: []*N{Id(x)}})
	return []*N{
		{K: "expr", Ns: []*N{{K: "fn", S: fn, Ss: [][]*N{body}}}},
		{K: "expr", Ns: []*N{P1(g.id(), Call(fn))}},
		{K: "expr", Ns: []*N{P1(g.id(), &N{K: "coal", Ns: []*N{Id(x), Str("undef")}})}},
	}
}

// selfName: a named function whose body rebinds, or calls through, its own name.
func (g *G) selfName(c *gctx) []*N {
	g.nextFn++
	name := fmt.Sprintf("s%d", g.nextFn)
	g.feat("self_name")
	if g.chance(50) {
		// the body assigns to the function's own name: the binding made by the function statement changes
		body := []*N{{K: "let", Ps: []string{name}, Ns: []*N{g.val()}}, {K: "ret", Ns: []*N{g.val()}}}
		return []*N{
			{K: "expr", Ns: []*N{{K: "fn", S: name, Ss: [][]*N{body}}}},
			{K: "expr", Ns: []*N{P1(g.id(), &N{K: "call", S: name})}},
			g.probeName(name),
		}
	}
	// the name is rebound outside while the old function value is still reachable: the recursive
	// call inside the old value goes to whatever the name is bound to now
	keep := name + "k"
	body := []*N{
		{K: "if", Ns: []*N{Bin("<=", Id("n"), Int(0))}, Ss: [][]*N{{{K: "ret", Ns: []*N{g.val()}}}}},
		{K: "ret", Ns: []*N{Bin("+", &N{K: "call", S: name, Ns: []*N{Bin("-", Id("n"), Int(1))}}, Int(1))}},
	}
	other := []*N{{K: "ret", Ns: []*N{Bin("+", Id("n"), Int(1000))}}}
	return []*N{
		{K: "expr", Ns: []*N{{K: "fn", S: name, Ps: []string{"n"}, Ss: [][]*N{body}}}},
		{K: "let", Ps: []string{keep}, Ns: []*N{Id(name)}},
		{K: "expr", Ns: []*N{P1(g.id(), &N{K: "call", S: keep, Ns: []*N{Int(2)}})}},
		{K: "let", Ps: []string{name}, Ns: []*N{{K: "fn", Ps: []string{"n"}, Ss: [][]*N{other}}}},
		{K: "expr", Ns: []*N{P1(g.id(), &N{K: "call", S: keep, Ns: []*N{Int(2)}})}},
	}
}

// closureFactory: a function that creates a closure over its parameter and a local, inside a
// nested block or at the top of its body, is called several times; the closures are called
// afterwards, interleaved with further calls of the factory.
func (g *G) closureFactory(c *gctx) []*N {
	g.nextFn++
	name := fmt.Sprintf("mk%d", g.nextFn)
	clo := &N{K: "fn", Ps: []string{"d"}, Ss: [][]*N{{
		{K: "let", Ps: []string{"loc"}, Ns: []*N{Bin("+", Id("loc"), Id("d"))}},
		{K: "ret", Ns: []*N{Bin("+", Bin("*", Id("loc"), Int(100)), Id("a"))}},
	}}}
	mk := func(s *N) []*N {
		switch g.n(0, 5, "factorynest") {
		case 0:
			g.feat("closure_made_at_body_top")
			return []*N{s}
		case 1:
			return []*N{{K: "if", Ns: []*N{{K: "true"}}, Ss: [][]*N{{s}}}}
		case 2:
			return []*N{{K: "forin", Ps: []string{"it"}, Ns: []*N{{K: "list", Ns: []*N{Int(1)}}}, Ss: [][]*N{{s}}}}
		case 3:
			return []*N{{K: "switch", Ns: []*N{Int(1), {K: "case", Ns: []*N{Int(1)}, Ss: [][]*N{{s}}}}}}
		case 4:
			return []*N{{K: "if", Ns: []*N{{K: "false"}}, Ss: [][]*N{{}, {s}}, B: true}}
		default:
			return []*N{{K: "try", Ss: [][]*N{{{K: "throw", Ns: []*N{Str("E")}}}, {s}}}}
		}
	}
	var body []*N
	body = append(body, &N{K: "var", Ps: []string{"loc"}, Ns: []*N{Bin("*", Id("a"), Int(2))}})
	hold := name + "h"
	stored := g.chance(40)
	if stored {
		// the closure escapes through a variable of the enclosing scope
		body = append(body, mk(&N{K: "let", Ps: []string{hold}, Ns: []*N{clo}})...)
		body = append(body, &N{K: "ret", Ns: []*N{Id(hold)}})
	} else {
		body = append(body, mk(&N{K: "ret", Ns: []*N{clo}})...)
		body = append(body, &N{K: "ret", Ns: []*N{{K: "nil"}}})
	}
	out := []*N{}
	if stored {
		out = append(out, &N{K: "let", Ps: []string{hold}, Ns: []*N{{K: "nil"}}})
	}
	out = append(out, &N{K: "expr", Ns: []*N{{K: "fn", S: name, Ps: []string{"a"}, Ss: [][]*N{body}}}})
	nclo := 0
	steps := g.n(3, 7, "factorysteps")
	for i := 0; i < steps; i++ {
		if nclo == 0 || (nclo < 3 && g.chance(45)) {
			nclo++
			out = append(out, &N{K: "let", Ps: []string{fmt.Sprintf("%sc%d", name, nclo)}, Ns: []*N{{K: "call", S: name, Ns: []*N{g.val()}}}})
			continue
		}
		which := g.n(1, nclo, "whichclosure")
		out = append(out, &N{K: "expr", Ns: []*N{P1(g.id(), &N{K: "call", S: fmt.Sprintf("%sc%d", name, which), Ns: []*N{Int(int64(g.n(0, 3, "delta")))}})}})
	}
	g.feat("closure_factory")
	return out
}

// strayBreak: a function whose body holds a break/continue outside any loop of its own is called
// from inside a loop of the caller: the stray statement is an error of the callee and must
// never act on the caller's loop.
func (g *G) strayBreak(c *gctx) []*N {
	g.nextFn++
	name := fmt.Sprintf("sb%d", g.nextFn)
	stray := &N{K: rapid.SampledFrom([]string{"break", "cont"}).Draw(g.t, "straykind")}
	var inner *N
	switch g.n(0, 3, "straynest") {
	case 0:
		inner = stray
	case 1:
		inner = &N{K: "if", Ns: []*N{Bin("==", Bin("%", Id("n"), Int(2)), Int(int64(g.n(0, 1, "par"))))}, Ss: [][]*N{{stray}}}
	case 2:
		inner = &N{K: "switch", Ns: []*N{Id("n"), {K: "case", Ns: []*N{Int(int64(g.n(0, 2, "sc")))}, Ss: [][]*N{{stray}}}}}
	default:
		inner = &N{K: "try", Ss: [][]*N{{{K: "throw", Ns: []*N{Str("E")}}}, {stray}}}
	}
	body := []*N{{K: "expr", Ns: []*N{P1(g.id(), Id("n"))}}, inner, {K: "expr", Ns: []*N{P(g.id())}}, {K: "ret", Ns: []*N{Bin("+", Id("n"), Int(50))}}}
	def := &N{K: "expr", Ns: []*N{{K: "fn", S: name, Ps: []string{"n"}, Ss: [][]*N{body}}}}
	v := fmt.Sprintf("sv%d", g.nextFn)
	call := &N{K: "expr", Ns: []*N{P1(g.id(), &N{K: "call", S: name, Ns: []*N{Id(v)}})}}
	var loopBody []*N
	loopBody = append(loopBody, &N{K: "expr", Ns: []*N{P1(g.id(), Id(v))}})
	if g.chance(60) {
		loopBody = append(loopBody, &N{K: "try", S: "e", Ss: [][]*N{{call}, {{K: "expr", Ns: []*N{P1(g.id(), Str("caught"))}}}}})
	} else {
		loopBody = append(loopBody, call)
	}
	loopBody = append(loopBody, &N{K: "expr", Ns: []*N{P(g.id())}})
	g.feat("stray_break_or_continue_in_callee")
	var loop *N
	switch g.n(0, 2, "strayloop") {
	case 0:
		loop = &N{K: "forin", Ps: []string{v}, Ns: []*N{{K: "list", Ns: []*N{Int(0), Int(1), Int(2)}}}, Ss: [][]*N{loopBody}}
	case 1:
		loop = &N{K: "cfor", Ns: []*N{{K: "let", Ps: []string{v}, Ns: []*N{Int(0)}}, Bin("<", Id(v), Int(3)), {K: "inc", S: v, I: 1}}, Ss: [][]*N{loopBody}}
	default:
		pre := &N{K: "let", Ps: []string{v}, Ns: []*N{Bin("+", Id(v), Int(1))}}
		return []*N{def, {K: "var", Ps: []string{v}, Ns: []*N{Int(-1)}}, {K: "loop", Ns: []*N{Bin("<", Id(v), Int(2))}, Ss: [][]*N{append([]*N{pre}, loopBody...)}}, {K: "expr", Ns: []*N{P(g.id())}}}
	}
	return []*N{def, loop, {K: "expr", Ns: []*N{P(g.id())}}}
}

// callbackStmt hands a script function literal to a Go function whose parameter is a func type
// without results; the literal's body is an ordinary block (it may raise, defer, try).
func (g *G) callbackStmt(c *gctx) *N {
	g.nextFn++
	fc := c.sub()
	fc.inLoop, fc.canRet, fc.ret, fc.fnIdx, fc.flat = false, true, "none", g.nextFn, false
	fc.anc = append(fc.anc, g.nextFn)
	body := g.block(fc, g.n(1, 3, "cbn"))
	body = append(body, &N{K: "ret"})
	g.feat("script_callback_passed_to_go")
	var call *N
	if g.chance(50) {
		call = &N{K: "call", S: "gcall0", Ns: []*N{{K: "fn", Ss: [][]*N{body}}}}
	} else {
		body = append([]*N{{K: "expr", Ns: []*N{P1(g.id(), Id("cbx"))}}}, body...)
		items := &N{K: "list"}
		for i := g.n(1, 3, "cbitems"); i > 0; i-- {
			items.Ns = append(items.Ns, g.val())
		}
		call = &N{K: "call", S: "geach", Ns: []*N{items, {K: "fn", Ps: []string{"cbx"}, Ss: [][]*N{body}}}}
	}
	return &N{K: "expr", Ns: []*N{P1(g.id(), call)}}
}

// cforOuterCounter: a C-style loop whose init clause assigns a name of the pool (usually bound
// outside already): the loop works on that binding, which is read during and after the loop.
func (g *G) cforOuterCounter(c *gctx) []*N {
	v := g.name()
	bound := int64(g.n(1, 3, "ocbound"))
	g.nextFn++
	rd := fmt.Sprintf("rd%d", g.nextFn)
	body := []*N{{K: "expr", Ns: []*N{P1(g.id(), Id(v))}}, {K: "expr", Ns: []*N{P1(g.id(), &N{K: "call", S: rd})}}}
	g.feat("cfor_counter_is_a_pool_name")
	return []*N{
		{K: "expr", Ns: []*N{{K: "fn", S: rd, Ss: [][]*N{{{K: "ret", Ns: []*N{&N{K: "coal", Ns: []*N{Id(v), Str("undef")}}}}}}}}},
		{K: "cfor", Ns: []*N{{K: "let", Ps: []string{v}, Ns: []*N{Int(0)}}, Bin("<", Id(v), Int(bound)), {K: "inc", S: v, I: 1}}, Ss: [][]*N{body}},
		{K: "expr", Ns: []*N{P1(g.id(), &N{K: "coal", Ns: []*N{Id(v), Str("undef")}})}},
		{K: "expr", Ns: []*N{P1(g.id(), &N{K: "call", S: rd})}},
	}
}

// nestedCallArgs: a script function of 2..4 parameters is called with arguments that contain
// several calls of script functions themselves (after an argument that is already evaluated).
func (g *G) nestedCallArgs(c *gctx) []*N {
	g.nextFn++
	id := fmt.Sprintf("nid%d", g.nextFn)
	pick := fmt.Sprintf("npk%d", g.nextFn)
	n := g.n(2, 4, "nparams")
	params := []string{"x0", "x1", "x2", "x3"}[:n]
	l := &N{K: "list"}
	for _, p := range params {
		l.Ns = append(l.Ns, Id(p))
	}
	call1 := func() *N { return &N{K: "call", S: id, Ns: []*N{g.val()}} }
	var arg func(d int) *N
	arg = func(d int) *N {
		switch g.n(0, 4, "nestarg") {
		case 0:
			return g.val()
		case 1:
			return call1()
		case 2:
			return Bin("+", call1(), call1())
		case 3:
			if d > 0 {
				inner := &N{K: "call", S: pick}
				for i := 0; i < n; i++ {
					inner.Ns = append(inner.Ns, arg(d-1))
				}
				return &N{K: "len", Ns: []*N{inner}}
			}
			return call1()
		default:
			return &N{K: "call", S: id, Ns: []*N{call1()}}
		}
	}
	outer := &N{K: "call", S: pick}
	for i := 0; i < n; i++ {
		outer.Ns = append(outer.Ns, arg(1))
	}
	g.feat("nested_script_calls_in_arguments")
	return []*N{
		{K: "expr", Ns: []*N{{K: "fn", S: id, Ps: []string{"v"}, Ss: [][]*N{{{K: "ret", Ns: []*N{Id("v")}}}}}}},
		{K: "expr", Ns: []*N{{K: "fn", S: pick, Ps: params, Ss: [][]*N{{{K: "ret", Ns: []*N{l}}}}}}},
		{K: "expr", Ns: []*N{P1(g.id(), outer)}},
	}
}
