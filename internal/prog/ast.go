// Package prog holds the mini-AST of generated anko programs, its printer, the
// constructive generator and the reference interpreter (model) used as oracle
// by C04, C07, C08, C09, C14 and C18. The model never sees anko's own parser or ast.
package prog

import (
	"fmt"
	"math"
	"strconv"
	"strings"

	"verif/internal/vals"
)

// N is a node of the mini-AST (expression or statement). JSON-serialisable so that a
// failing program can be replayed through the same oracle.
type N struct {
	K  string   `json:"k"`
	S  string   `json:"s,omitempty"`
	I  int64    `json:"i,omitempty"`
	B  bool     `json:"b,omitempty"`
	Ns []*N     `json:"n,omitempty"`
	Ss [][]*N   `json:"ss,omitempty"`
	Ps []string `json:"p,omitempty"`
}

// Expression kinds:
//  nil true false int(I) flt(I=bits) str(S) id(S) list(Ns) map(Ns k,v,...)
//  bin(S op; 2) not(1) neg(1) and(2) or(2) tern(3) coal(2) chain(S && or ||; Ns >= 2 operands, no inner parentheses)
//  call(S name; Ns args; B spread) acall(Ns[0] callee, rest args; B spread)
//  fn(S name|""; Ps params; B vararg; Ss[0] body)
//  idx(2) mem(Ns[0]; S) len(1) in(2)
//  p(I id; Ns 0..1)  pfail(I id)
//  inc(S name; I +1|-1)  opas(S name; Ps[0] op; Ns[0])
// Statement kinds:
//  expr(1) let(Ps names; Ns rhs) letidx(Ns: target,index,value) var(Ps; Ns)
//  letmap(Ps v,ok; Ns map,key) letchan(Ps v[,ok]; Ns value held by the channel)
//  if(Ns conds; Ss blocks; B has else)
//  loop(Ns 0..1 cond; Ss[0]) cfor(Ns init|none,cond|none,post|none; Ss[0])
//  forin(Ps vars; Ns[0]; Ss[0])
//  switch(Ns[0] subject, Ns[1:] case|default nodes) case(Ns exprs; Ss[0]) default(Ss[0])
//  try(Ss[0] try, Ss[1] catch, Ss[2] finally if B; S catch var)
//  throw(1) ret(Ns) break cont defer(Ns[0] call) module(S; Ss[0]) none
//  go(Ns[0] call)  println(Ns) (C18 only)

func E(k string, kids ...*N) *N { return &N{K: k, Ns: kids} }
func Int(i int64) *N            { return &N{K: "int", I: i} }
func Str(s string) *N           { return &N{K: "str", S: s} }
func Id(s string) *N            { return &N{K: "id", S: s} }
func Bin(op string, a, b *N) *N { return &N{K: "bin", S: op, Ns: []*N{a, b}} }
func P(id int64, e ...*N) *N    { return &N{K: "p", I: id, Ns: e} }
func Call(name string, args ...*N) *N {
	return &N{K: "call", S: name, Ns: args}
}

// Print renders a statement list as anko source.
func Print(stmts []*N) string {
	var b strings.Builder
	printBlock(&b, stmts, 0)
	return b.String()
}

func ind(b *strings.Builder, d int) {
	for i := 0; i < d; i++ {
		b.WriteString("  ")
	}
}

func printBlock(b *strings.Builder, stmts []*N, d int) {
	for _, s := range stmts {
		printStmt(b, s, d)
	}
}

func printStmt(b *strings.Builder, s *N, d int) {
	ind(b, d)
	switch s.K {
	case "none":
		b.WriteString("\n")
	case "expr":
		b.WriteString(ExprString(s.Ns[0]))
		b.WriteString("\n")
	case "let":
		b.WriteString(strings.Join(s.Ps, ", "))
		b.WriteString(" = ")
		b.WriteString(exprList(s.Ns))
		b.WriteString("\n")
	case "letmap":
		// two names, one index expression on the right: the map-lookup form `v, ok = m[k]`
		b.WriteString(strings.Join(s.Ps, ", ") + " = " + ExprString(s.Ns[0]) + "[" + ExprString(s.Ns[1]) + "]\n")
	case "letchan":
		// receive assignment from a host-made buffered channel holding Ns[0]: `v = <-gch(e)` / `v, ok = <-gch(e)`
		b.WriteString(strings.Join(s.Ps, ", ") + " = <-gch(" + ExprString(s.Ns[0]) + ")\n")
	case "letidx":
		b.WriteString(ExprString(s.Ns[0]) + "[" + ExprString(s.Ns[1]) + "] = " + ExprString(s.Ns[2]) + "\n")
	case "opidx":
		if len(s.Ns) == 2 {
			b.WriteString(ExprString(s.Ns[0]) + "[" + ExprString(s.Ns[1]) + "]" + s.Ps[0] + s.Ps[0] + "\n")
		} else {
			b.WriteString(ExprString(s.Ns[0]) + "[" + ExprString(s.Ns[1]) + "] " + s.Ps[0] + "= " + ExprString(s.Ns[2]) + "\n")
		}
	case "setup":
		// a line of preparation the model does not follow (it touches nothing the model tracks)
		b.WriteString(s.S + "\n")
	case "letmem":
		b.WriteString(ExprString(s.Ns[0]) + "." + s.S + " = " + ExprString(s.Ns[1]) + "\n")
	case "letderef":
		// *name = value (see gen_deferargs.go)
		b.WriteString("*" + ExprString(s.Ns[0]) + " = " + ExprString(s.Ns[1]) + "\n")
	case "var":
		b.WriteString("var " + strings.Join(s.Ps, ", ") + " = " + exprList(s.Ns) + "\n")
	case "if":
		for i, c := range s.Ns {
			if i == 0 {
				b.WriteString("if " + ExprString(c) + " {\n")
			} else {
				ind(b, d)
				b.WriteString("} else if " + ExprString(c) + " {\n")
			}
			printBlock(b, s.Ss[i], d+1)
		}
		if s.B {
			ind(b, d)
			b.WriteString("} else {\n")
			printBlock(b, s.Ss[len(s.Ns)], d+1)
		}
		ind(b, d)
		b.WriteString("}\n")
	case "loop":
		if len(s.Ns) == 0 {
			b.WriteString("for {\n")
		} else {
			b.WriteString("for " + ExprString(s.Ns[0]) + " {\n")
		}
		printBlock(b, s.Ss[0], d+1)
		ind(b, d)
		b.WriteString("}\n")
	case "cfor":
		b.WriteString("for " + inlineStmt(s.Ns[0]) + "; " + inlineExpr(s.Ns[1]) + "; " + inlineExpr(s.Ns[2]) + " {\n")
		printBlock(b, s.Ss[0], d+1)
		ind(b, d)
		b.WriteString("}\n")
	case "forin":
		it := ExprString(s.Ns[0])
		if s.B && s.Ns[0].K == "list" {
			// over a channel: gchc(items...) is a closed buffered channel holding the items
			it = "gchc(" + exprList(s.Ns[0].Ns) + ")"
		}
		b.WriteString("for " + strings.Join(s.Ps, ", ") + " in " + it + " {\n")
		printBlock(b, s.Ss[0], d+1)
		ind(b, d)
		b.WriteString("}\n")
	case "switch":
		b.WriteString("switch " + ExprString(s.Ns[0]) + " {\n")
		for _, c := range s.Ns[1:] {
			ind(b, d)
			if c.K == "case" {
				b.WriteString("case " + exprList(c.Ns) + ":\n")
			} else {
				b.WriteString("default:\n")
			}
			printBlock(b, c.Ss[0], d+1)
		}
		ind(b, d)
		b.WriteString("}\n")
	case "try":
		b.WriteString("try {\n")
		printBlock(b, s.Ss[0], d+1)
		ind(b, d)
		if s.S != "" {
			b.WriteString("} catch " + s.S + " {\n")
		} else {
			b.WriteString("} catch {\n")
		}
		printBlock(b, s.Ss[1], d+1)
		if s.B {
			ind(b, d)
			b.WriteString("} finally {\n")
			printBlock(b, s.Ss[2], d+1)
		}
		ind(b, d)
		b.WriteString("}\n")
	case "throw":
		b.WriteString("throw " + ExprString(s.Ns[0]) + "\n")
	case "ret":
		if len(s.Ns) == 0 {
			b.WriteString("return\n")
		} else {
			b.WriteString("return " + exprList(s.Ns) + "\n")
		}
	case "break":
		b.WriteString("break\n")
	case "cont":
		b.WriteString("continue\n")
	case "defer":
		b.WriteString("defer " + callString(s.Ns[0]) + "\n")
	case "go":
		b.WriteString("go " + callString(s.Ns[0]) + "\n")
	case "module":
		b.WriteString("module " + s.S + " {\n")
		printBlock(b, s.Ss[0], d+1)
		ind(b, d)
		b.WriteString("}\n")
	case "delete":
		b.WriteString("delete(" + exprList(s.Ns) + ")\n")
	case "close":
		b.WriteString("close(" + ExprString(s.Ns[0]) + ")\n")
	case "raw":
		b.WriteString(s.S + "\n")
	default:
		panic("printStmt: unknown kind " + s.K)
	}
}

func inlineStmt(s *N) string {
	if s == nil || s.K == "none" {
		return ""
	}
	var b strings.Builder
	printStmt(&b, s, 0)
	return strings.TrimRight(b.String(), "\n")
}

func inlineExpr(e *N) string {
	if e == nil || e.K == "none" {
		return ""
	}
	return ExprString(e)
}

func exprList(es []*N) string {
	parts := make([]string, len(es))
	for i, e := range es {
		parts[i] = ExprString(e)
	}
	return strings.Join(parts, ", ")
}

// callString prints a call for go/defer (no surrounding parentheses).
func callString(e *N) string {
	switch e.K {
	case "call":
		s := e.S + "(" + exprList(e.Ns)
		if e.B {
			s += "..."
		}
		return s + ")"
	case "acall":
		s := "(" + ExprString(e.Ns[0]) + ")(" + exprList(e.Ns[1:])
		if e.B {
			s += "..."
		}
		return s + ")"
	case "p":
		return "p(" + exprList(append([]*N{Int(e.I)}, e.Ns...)) + ")"
	case "pfail":
		return "pfail(" + strconv.FormatInt(e.I, 10) + ")"
	}
	panic("callString: not a call: " + e.K)
}

// ExprString prints an expression; every compound sub-expression is parenthesised,
// so the text never depends on the operator table (C03 checks that separately).
func ExprString(e *N) string {
	switch e.K {
	case "nil", "true", "false":
		return e.K
	case "int":
		if e.I < 0 {
			return "(" + strconv.FormatInt(e.I, 10) + ")"
		}
		return strconv.FormatInt(e.I, 10)
	case "flt":
		s := vals.FloatLit(math.Float64frombits(uint64(e.I)))
		if strings.HasPrefix(s, "-") {
			return "(" + s + ")"
		}
		return s
	case "str":
		return vals.StrLit(e.S)
	case "id":
		return e.S
	case "list":
		return "[" + exprList(e.Ns) + "]"
	case "tlist":
		return "[]" + e.S + "{" + exprList(e.Ns) + "}"
	case "tmap":
		parts := []string{}
		for i := 0; i+1 < len(e.Ns); i += 2 {
			parts = append(parts, ExprString(e.Ns[i])+": "+ExprString(e.Ns[i+1]))
		}
		return "map[string]" + e.S + "{" + strings.Join(parts, ", ") + "}"
	case "map", "imap":
		parts := []string{}
		for i := 0; i+1 < len(e.Ns); i += 2 {
			parts = append(parts, ExprString(e.Ns[i])+": "+ExprString(e.Ns[i+1]))
		}
		if e.K == "imap" {
			// the typed literal with interface keys and values
			return "map{" + strings.Join(parts, ", ") + "}"
		}
		return "{" + strings.Join(parts, ", ") + "}"
	case "bin":
		return "(" + ExprString(e.Ns[0]) + " " + e.S + " " + ExprString(e.Ns[1]) + ")"
	case "addr":
		return "&" + ExprString(e.Ns[0])
	case "deref":
		// *name: the value a pointer variable points to (see gen_deferargs.go)
		return "*" + ExprString(e.Ns[0])
	case "not":
		return "(!" + ExprString(e.Ns[0]) + ")"
	case "neg":
		return "(-(" + ExprString(e.Ns[0]) + "))"
	case "recv":
		// receive expression from a host-made buffered channel holding the operand
		return "(<-gch(" + ExprString(e.Ns[0]) + "))"
	case "negb":
		// bare unary minus in front of a call or a name (no parentheses around it)
		return "-" + ExprString(e.Ns[0])
	case "and":
		return "(" + ExprString(e.Ns[0]) + " && " + ExprString(e.Ns[1]) + ")"
	case "or":
		return "(" + ExprString(e.Ns[0]) + " || " + ExprString(e.Ns[1]) + ")"
	case "chain":
		// S is && or ||: the operands in a row, parentheses around the whole chain only
		parts := make([]string, len(e.Ns))
		for i, k := range e.Ns {
			parts[i] = ExprString(k)
		}
		return "(" + strings.Join(parts, " "+e.S+" ") + ")"
	case "tern":
		return "(" + ExprString(e.Ns[0]) + " ? " + ExprString(e.Ns[1]) + " : " + ExprString(e.Ns[2]) + ")"
	case "coal":
		return "(" + ExprString(e.Ns[0]) + " ?? " + ExprString(e.Ns[1]) + ")"
	case "call", "acall", "p", "pfail":
		return callString(e)
	case "fn":
		var b strings.Builder
		b.WriteString("func")
		if e.S != "" {
			b.WriteString(" " + e.S)
		}
		b.WriteString("(" + strings.Join(e.Ps, ", "))
		if e.B {
			b.WriteString("...")
		}
		b.WriteString(") {\n")
		printBlock(&b, e.Ss[0], 1)
		b.WriteString("}")
		if e.S != "" {
			return b.String()
		}
		return "(" + b.String() + ")"
	case "idx":
		return ExprString(e.Ns[0]) + "[" + ExprString(e.Ns[1]) + "]"
	case "slice":
		s := ExprString(e.Ns[0]) + "[" + inlineExpr(e.Ns[1]) + ":" + inlineExpr(e.Ns[2])
		if len(e.Ns) > 3 {
			s += ":" + inlineExpr(e.Ns[3])
		}
		return s + "]"
	case "mem":
		return ExprString(e.Ns[0]) + "." + e.S
	case "rterr":
		// an expression that raises a runtime error inside the interpreter (S is its text, Ps[0] its class)
		return e.S
	case "mkslice":
		// make([]T, n): S is the element type, I the length
		return "make([]" + e.S + ", " + strconv.FormatInt(e.I, 10) + ")"
	case "len":
		return "len(" + ExprString(e.Ns[0]) + ")"
	case "in":
		return "(" + ExprString(e.Ns[0]) + " in " + ExprString(e.Ns[1]) + ")"
	case "inc":
		if e.I < 0 {
			return e.S + "--"
		}
		return e.S + "++"
	case "opas":
		return e.S + " " + e.Ps[0] + "= " + ExprString(e.Ns[0])
	case "raw":
		return e.S
	}
	panic(fmt.Sprintf("ExprString: unknown kind %q", e.K))
}

// Walk calls f on every node of the statement list (pre-order).
func Walk(stmts []*N, f func(*N)) {
	for _, s := range stmts {
		walkN(s, f)
	}
}

func walkN(n *N, f func(*N)) {
	if n == nil {
		return
	}
	f(n)
	for _, k := range n.Ns {
		walkN(k, f)
	}
	for _, b := range n.Ss {
		for _, s := range b {
			walkN(s, f)
		}
	}
}
