package prog

import (
	"fmt"
	"math"
	"regexp"
)

// ---------- by-construction pattern of Profile.SwAgain (C08, eighth round) ----------

// switchAgain: ONE switch statement with 2-5 cases whose case lists OVERLAP, executed 2-6 times by a
// loop inside one function invocation (or inline, in the block the statement stands in: at top level
// that is the top-level run). A switch executes exactly the FIRST case, in source order, one of whose
// expressions equals the subject - on every execution, whatever matched the time before. The subjects
// are ordered so that a LATER case matches first and a subject that equals an expression of that case
// AND of an earlier case arrives afterwards:
//
//	for x in [3, 2, 1, 2] { switch x { case 1, 2: p("k0")  case 2, 3: p("k1")  default: p("dflt") } }
//
// Overlap classes: the same literal in two case lists; loosely equal spellings of one number (1,
// 1.0, "1", "1.0": an integer and a float are equal when <= and >= hold, a string and a number when the
// string is a decimal numeral denoting the number); case expressions that are variables, probe calls
// of variables, sums of the loop counter, whose values come to coincide on a later pass (assigned in a
// case body or at the end of the loop body); true / false / comparisons; nil written twice. Loop
// forms: for-in over a list literal / a list variable, C-style over an index, `for cond` over an
// index, a descending counter that is the subject itself. Every case body logs its index (a probe, or
// a string the function returns / reports afterwards) and may assign a case variable, continue, break,
// return from the pattern's function or hold a small block of ordinary statements.
//
// Only value pairs whose equality the C06 statement decides are put together: numbers, numerals and
// other strings, nil in one family; booleans and nil in the other.
func (g *G) switchAgain(c *gctx) []*N {
	g.feat("switch_again")
	g.nextFn++
	k := g.nextFn
	pre := fmt.Sprintf("sw%d", k)
	va, vb, sx, si, sl, acc := pre+"a", pre+"b", pre+"x", pre+"i", pre+"l", pre+"r"
	flt := func(f float64) *N { return &N{K: "flt", I: int64(math.Float64bits(f))} }
	see := func(e *N) *N { return &N{K: "expr", Ns: []*N{P1(g.id(), e)}} }

	boolFam := g.tenths(1)
	nc := g.n(2, 5, "swa_cases")
	ns := g.n(2, 6, "swa_passes")
	form := g.n(0, 5, "swa_loop") // 0,1 for-in over a literal  2 for-in over a variable  3 C-style over an index  4 for cond over an index  5 descending counter
	variant := g.n(0, 9, "swa_variant")
	if boolFam && form == 5 {
		form = 0
	}

	// ---- spellings ----
	// lit(v): one of the spellings of the number v that are constants
	lit := func(v int64) *N {
		switch r := g.n(0, 9, "swa_spell"); {
		case r < 5:
			return Int(v)
		case r < 7:
			g.feat("switch_again_float_spelling")
			return flt(float64(v))
		case r < 9:
			g.feat("switch_again_numeral_string_spelling")
			return Str(fmt.Sprint(v))
		default:
			g.feat("switch_again_numeral_string_with_fraction_spelling")
			return Str(fmt.Sprintf("%d.0", v))
		}
	}
	usesA, usesB := false, false
	aInit, bInit := int64(g.n(0, 5, "swa_a")), int64(g.n(0, 5, "swa_b"))
	// dyn(): an expression whose value may differ from pass to pass
	dyn := func() *N {
		switch g.n(0, 5, "swa_dyn") {
		case 0:
			usesA = true
			g.feat("switch_again_case_is_variable")
			return Id(va)
		case 1:
			usesB = true
			g.feat("switch_again_case_is_variable")
			return Id(vb)
		case 2:
			usesA = true
			g.feat("switch_again_case_is_probe_of_variable")
			return P1(g.id(), Id(va))
		case 3:
			usesB = true
			g.feat("switch_again_case_is_sum_with_variable")
			return Bin("+", Id(vb), Int(int64(g.n(0, 2, "swa_off"))))
		case 4:
			if form >= 3 {
				g.feat("switch_again_case_is_sum_with_loop_counter")
				return Bin("+", Id(si), Int(int64(g.n(0, 3, "swa_off"))))
			}
			usesA = true
			return Id(va)
		default:
			g.feat("switch_again_case_is_pool_name")
			return Id(g.name())
		}
	}
	// spell(v): any spelling of v for a case list
	spell := func(v int64) *N {
		switch r := g.n(0, 9, "swa_kind"); {
		case r < 6:
			return lit(v)
		case r < 8:
			g.feat("switch_again_case_is_probe_of_literal")
			return P1(g.id(), Int(v))
		default:
			return dyn()
		}
	}
	other := func() *N {
		// values that equal no number of the universe: a float with a fraction, words, the empty string, nil
		switch g.n(0, 4, "swa_other") {
		case 0:
			return flt(float64(g.n(0, 5, "swa_half")) + 0.5)
		case 1:
			return Str("s1")
		case 2:
			return Str("")
		case 3:
			return &N{K: "nil"}
		default:
			return Str(fmt.Sprintf("%d.5", g.n(0, 5, "swa_half")))
		}
	}

	// ---- the plan: case lists and subjects ----
	cases := make([][]*N, nc)
	var subs []*N
	coinJ, coinS := -1, int64(0) // the coinciding-variable plan: its later case, its subject
	switch {
	case boolFam:
		g.feat("switch_again_family_booleans_and_nil")
		bval := func() *N {
			switch g.n(0, 5, "swa_bool") {
			case 0, 1:
				return &N{K: "true"}
			case 2, 3:
				return &N{K: "false"}
			case 4:
				return &N{K: "nil"}
			default:
				return Bin(rapidOp(g), Int(int64(g.n(0, 2, "swa_l"))), Int(int64(g.n(0, 2, "swa_r"))))
			}
		}
		for i := range cases {
			for j := g.n(1, 2, "swa_exprs"); j > 0; j-- {
				cases[i] = append(cases[i], bval())
			}
		}
		for i := 0; i < ns; i++ {
			subs = append(subs, []*N{{K: "true"}, {K: "false"}, {K: "nil"}, {K: "false"}, {K: "true"}}[g.n(0, 4, "swa_bsub")])
		}
	case variant < 5:
		// the same value (in any of its spellings) in the lists of case i and case j > i; a value w that
		// only case j (and later ones) list; the subjects hold w and then v
		g.feat("switch_again_shared_value_in_two_case_lists")
		j := g.n(1, nc-1, "swa_later")
		i := g.n(0, j-1, "swa_earlier")
		v := int64(g.n(1, 4, "swa_shared"))
		w := v + 1
		if form != 5 && g.tenths(5) {
			w = v - 1
		}
		for ci := range cases {
			for n := g.n(0, 2, "swa_exprs"); n > 0; n-- {
				u := int64(g.n(0, 6, "swa_val"))
				if ci < j && u == w {
					continue
				}
				if g.tenths(1) {
					cases[ci] = append(cases[ci], other())
					continue
				}
				e := spell(u)
				if ci < j && (e.K == "id" || e.K == "bin" || (e.K == "p" && e.Ns[0].K == "id")) {
					// a name could hold w: keep the earlier lists constant here
					e = lit(u)
				}
				cases[ci] = append(cases[ci], e)
			}
		}
		ins := func(ci int, e *N) {
			at := g.n(0, len(cases[ci]), "swa_at")
			cases[ci] = append(cases[ci][:at], append([]*N{e}, cases[ci][at:]...)...)
		}
		ins(i, lit(v))
		if g.tenths(5) {
			ins(j, lit(v))
			ins(j, lit(w))
		} else {
			ins(j, lit(w))
			ins(j, lit(v))
		}
		if form == 5 {
			// the counter runs downwards through w and v = w - 1
			above := g.n(0, 2, "swa_above")
			if ns < above+2 {
				ns = above + 2
			}
			for n := 0; n < ns; n++ {
				subs = append(subs, Int(w+int64(above)-int64(n)))
			}
		} else {
			at := g.n(0, ns-2, "swa_pos")
			for n := 0; n < ns; n++ {
				switch n {
				case at:
					subs = append(subs, lit(w))
				case at + 1:
					subs = append(subs, lit(v))
				default:
					if g.tenths(1) {
						subs = append(subs, other())
					} else {
						subs = append(subs, lit(int64(g.n(0, 6, "swa_val"))))
					}
				}
			}
		}
	case variant < 8:
		// a case expression that is a variable (or a probe / a sum of it) and comes to equal the
		// subject only after a later case has matched: assigned in that case's body or at the end of the
		// loop body
		g.feat("switch_again_case_value_coincides_on_a_later_pass")
		usesA = true
		s := int64(g.n(1, 4, "swa_shared"))
		aInit = s + int64(g.n(1, 3, "swa_apart"))
		j := g.n(1, nc-1, "swa_later")
		i := g.n(0, j-1, "swa_earlier")
		coinJ, coinS = j, s
		for ci := range cases {
			if ci == i || ci == j {
				continue
			}
			for n := g.n(1, 2, "swa_exprs"); n > 0; n-- {
				u := s + int64(g.n(4, 9, "swa_far")) // never the subject, never what the variable holds
				cases[ci] = append(cases[ci], lit(u))
			}
		}
		switch g.n(0, 2, "swa_earlyform") {
		case 0:
			cases[i] = []*N{Id(va)}
		case 1:
			g.feat("switch_again_case_is_probe_of_variable")
			cases[i] = []*N{P1(g.id(), Id(va))}
		default:
			cases[i] = []*N{lit(s + 20), Id(va)}
		}
		switch g.n(0, 2, "swa_lateform") {
		case 0:
			cases[j] = []*N{lit(s)}
		case 1:
			usesB = true
			bInit = s
			cases[j] = []*N{Id(vb)}
		default:
			cases[j] = []*N{lit(s + 30), P1(g.id(), Int(s))}
		}
		if form == 5 {
			form = 3
		}
		for n := 0; n < ns; n++ {
			subs = append(subs, lit(s))
		}
	default:
		// nothing planned: a small universe, every spelling, every kind of case expression
		g.feat("switch_again_small_universe")
		for ci := range cases {
			for n := g.n(1, 3, "swa_exprs"); n > 0; n-- {
				if g.tenths(1) {
					cases[ci] = append(cases[ci], other())
				} else {
					cases[ci] = append(cases[ci], spell(int64(g.n(1, 3, "swa_val"))))
				}
			}
		}
		if form == 5 {
			for n := 0; n < ns; n++ {
				subs = append(subs, Int(int64(ns-n)))
			}
		} else {
			for n := 0; n < ns; n++ {
				subs = append(subs, lit(int64(g.n(0, 4, "swa_val"))))
			}
		}
	}
	for ci := range cases {
		if len(cases[ci]) == 0 {
			cases[ci] = []*N{lit(int64(g.n(7, 9, "swa_val")))}
		}
	}

	// ---- where it runs ----
	where := g.n(0, 9, "swa_where") // 0-2 inline  3-5 named function  6-7 named function called twice  8-9 function value
	inFn := where >= 3
	bc := c.sub()
	if inFn {
		bc.inLoop, bc.canRet, bc.ret, bc.fnIdx, bc.flat = false, true, "int", k, false
		bc.anc = append(bc.anc, k)
	}
	bc.depth++ // the pattern is three levels deep by itself: ordinary statements inside it stay small
	lc := bc.sub()
	lc.inLoop = true

	// ---- case bodies ----
	useAcc := g.tenths(4)
	if useAcc {
		g.feat("switch_again_cases_logged_in_a_string")
	}
	coincideAssign := func() *N {
		// the assignment that makes the earlier case's variable equal the subject
		return &N{K: "let", Ps: []string{va}, Ns: []*N{Int(coinS)}}
	}
	assignInCase := coinJ >= 0 && g.tenths(5)
	mkBody := func(tag string, ci int) []*N {
		var body []*N
		if useAcc {
			body = append(body, &N{K: "let", Ps: []string{acc}, Ns: []*N{Bin("+", Id(acc), Str(tag))}})
			if g.tenths(3) {
				body = append(body, see(Str(tag)))
			}
		} else {
			body = append(body, see(Str(tag)))
		}
		if assignInCase && ci == coinJ {
			// in the body of the later case: from now on the earlier case's variable equals the subject
			body = append(body, coincideAssign())
			g.feat("switch_again_variable_assigned_in_a_case_body")
		}
		if !boolFam && (usesA || usesB) && g.tenths(2) {
			nm := va
			if usesB && (!usesA || g.tenths(5)) {
				nm = vb
			}
			g.feat("switch_again_variable_assigned_in_a_case_body")
			if g.tenths(5) {
				body = append(body, &N{K: "let", Ps: []string{nm}, Ns: []*N{Bin("+", Id(nm), Int(1))}})
			} else {
				body = append(body, &N{K: "let", Ps: []string{nm}, Ns: []*N{Int(int64(g.n(0, 5, "swa_set")))}})
			}
		}
		if g.tenths(1) {
			g.feat("switch_again_ordinary_statements_in_a_case_body")
			kc := lc.sub()
			body = append(body, g.block(kc, 1)...)
		}
		switch r := g.n(0, 9, "swa_exit"); {
		case r == 9:
			g.feat("switch_again_continue_in_a_case_body")
			body = append(body, &N{K: "cont"})
		case r == 8:
			g.feat("switch_again_break_in_a_case_body")
			body = append(body, &N{K: "break"})
		case r == 7 && inFn:
			g.feat("switch_again_return_in_a_case_body")
			body = append(body, &N{K: "ret", Ns: []*N{Str(tag + "!")}})
		}
		return body
	}
	sw := &N{K: "switch", S: "again"}
	defAt := -1
	if g.tenths(8) {
		defAt = g.n(0, nc, "swa_defat")
	}
	for ci := 0; ci <= nc; ci++ {
		if ci == defAt {
			sw.Ns = append(sw.Ns, &N{K: "default", Ss: [][]*N{mkBody("dflt", -1)}})
		}
		if ci == nc {
			break
		}
		sw.Ns = append(sw.Ns, &N{K: "case", Ns: cases[ci], Ss: [][]*N{mkBody(fmt.Sprintf("k%d", ci), ci)}})
	}

	// ---- the loop ----
	list := &N{K: "list", Ns: subs}
	var setup, loopBody []*N
	var loop *N
	var subject *N
	tail := func() []*N {
		var out []*N
		if coinJ >= 0 && !assignInCase {
			g.feat("switch_again_variable_assigned_at_the_end_of_the_loop_body")
			out = append(out, coincideAssign())
		} else if !boolFam && usesA && g.tenths(4) {
			g.feat("switch_again_variable_assigned_at_the_end_of_the_loop_body")
			out = append(out, &N{K: "let", Ps: []string{va}, Ns: []*N{Bin("+", Id(va), Int(int64(1-2*g.n(0, 1, "swa_down"))))}})
		}
		if g.tenths(2) {
			out = append(out, see(Id(sxOr(form, sx, si))))
		}
		return out
	}
	switch form {
	case 0, 1:
		g.feat("switch_again_forin_over_list_literal")
		subject = Id(sx)
	case 2:
		g.feat("switch_again_forin_over_list_variable")
		setup = append(setup, &N{K: "let", Ps: []string{sl}, Ns: []*N{list}})
		subject = Id(sx)
	case 3:
		g.feat("switch_again_cfor_over_index")
		setup = append(setup, &N{K: "let", Ps: []string{sl}, Ns: []*N{list}})
		subject = &N{K: "idx", Ns: []*N{Id(sl), Id(si)}}
	case 4:
		g.feat("switch_again_for_cond_over_index")
		setup = append(setup, &N{K: "let", Ps: []string{sl}, Ns: []*N{list}}, &N{K: "let", Ps: []string{si}, Ns: []*N{Int(0)}})
		subject = Id(sx)
	default:
		g.feat("switch_again_descending_counter_is_the_subject")
		subject = Id(si)
		if g.tenths(3) {
			subject = P1(g.id(), Id(si))
		}
	}
	if g.tenths(1) && form != 4 {
		g.feat("switch_again_subject_is_probe_call")
		subject = P1(g.id(), subject)
	}
	sw.Ns = append([]*N{subject}, sw.Ns...)
	if g.tenths(1) {
		kc := lc.sub()
		loopBody = append(loopBody, g.block(kc, 1)...)
	}
	switch form {
	case 0, 1:
		loopBody = append(append(loopBody, sw), tail()...)
		loop = &N{K: "forin", Ps: []string{sx}, Ns: []*N{list}, Ss: [][]*N{loopBody}}
	case 2:
		loopBody = append(append(loopBody, sw), tail()...)
		loop = &N{K: "forin", Ps: []string{sx}, Ns: []*N{Id(sl)}, Ss: [][]*N{loopBody}}
	case 3:
		loopBody = append(append(loopBody, sw), tail()...)
		loop = &N{K: "cfor", Ns: []*N{{K: "let", Ps: []string{si}, Ns: []*N{Int(0)}}, Bin("<", Id(si), Int(int64(len(subs)))), {K: "inc", S: si, I: 1}}, Ss: [][]*N{loopBody}}
	case 4:
		// the counter moves before the switch: a continue in a case body cannot stall the loop
		head := []*N{
			{K: "let", Ps: []string{sx}, Ns: []*N{{K: "idx", Ns: []*N{Id(sl), Id(si)}}}},
			{K: "let", Ps: []string{si}, Ns: []*N{Bin("+", Id(si), Int(1))}},
		}
		loopBody = append(append(append(head, loopBody...), sw), tail()...)
		loop = &N{K: "loop", Ns: []*N{Bin("<", Id(si), Int(int64(len(subs))))}, Ss: [][]*N{loopBody}}
	default:
		loopBody = append(append(loopBody, sw), tail()...)
		first := subs[0].I
		loop = &N{K: "cfor", Ns: []*N{{K: "let", Ps: []string{si}, Ns: []*N{Int(first)}}, Bin(">", Id(si), Int(first-int64(len(subs)))), {K: "inc", S: si, I: -1}}, Ss: [][]*N{loopBody}}
	}

	// ---- put together ----
	var body []*N
	if usesA {
		body = append(body, &N{K: "let", Ps: []string{va}, Ns: []*N{Int(aInit)}})
	}
	if usesB {
		body = append(body, &N{K: "let", Ps: []string{vb}, Ns: []*N{Int(bInit)}})
	}
	if useAcc {
		body = append(body, &N{K: "let", Ps: []string{acc}, Ns: []*N{Str("")}})
	}
	body = append(body, setup...)
	body = append(body, loop)
	if !inFn {
		g.feat("switch_again_inline")
		if c.fnIdx == math.MaxInt32 && c.depth == 0 {
			g.feat("switch_again_at_top_level")
		}
		if useAcc {
			body = append(body, see(Id(acc)))
		}
		return body
	}
	fn := pre + "f"
	if useAcc {
		body = append(body, &N{K: "ret", Ns: []*N{Id(acc)}})
	} else {
		body = append(body, &N{K: "ret", Ns: []*N{Str("end")}})
	}
	var out []*N
	call := func() *N { return see(Call(fn)) }
	switch {
	case where <= 5:
		g.feat("switch_again_in_named_function")
		out = []*N{{K: "expr", Ns: []*N{{K: "fn", S: fn, Ss: [][]*N{body}}}}, call()}
	case where <= 7:
		// every invocation starts afresh: the second one logs what the first one logged
		g.feat("switch_again_in_function_called_twice")
		out = []*N{{K: "expr", Ns: []*N{{K: "fn", S: fn, Ss: [][]*N{body}}}}, call(), call()}
	default:
		g.feat("switch_again_in_function_value")
		out = []*N{{K: "let", Ps: []string{fn}, Ns: []*N{{K: "fn", Ss: [][]*N{body}}}}, call()}
	}
	return out
}

// tenths: true in about k cases of 10 (a draw from 0..9 is only mildly skewed towards small values,
// a draw from 0..99 is not: there the lowest tenth comes up in four cases of ten).
func (g *G) tenths(k int) bool { return g.n(0, 9, "tenths") >= 10-k }

func sxOr(form int, sx, si string) string {
	if form == 3 || form == 5 {
		return si
	}
	return sx
}

func rapidOp(g *G) string {
	return []string{"<", "<=", "==", "!="}[g.n(0, 3, "swa_cmp")]
}

var swAgainName = regexp.MustCompile(`^sw[0-9]+[rf]$`)

// InSwitchAgain reports whether the probe with the given id stands inside a switch statement made by
// switchAgain (subject, case lists, bodies), in the loop that runs it or in the pattern's function, or reports the string of case tags / the function result of that pattern
// - for failure signatures only.
func InSwitchAgain(stmts []*N, probeID int64) bool {
	found := false
	var walk func(n *N, in bool)
	walk = func(n *N, in bool) {
		if n == nil || found {
			return
		}
		switch {
		case n.K == "switch" && n.S == "again":
			in = true
		case (n.K == "forin" || n.K == "cfor" || n.K == "loop") && len(n.Ss) > 0:
			// the loop that runs the pattern's switch
			for _, k := range n.Ss[0] {
				if k.K == "switch" && k.S == "again" {
					in = true
				}
			}
		case n.K == "fn" && swAgainName.MatchString(n.S), n.K == "let" && len(n.Ps) == 1 && swAgainName.MatchString(n.Ps[0]):
			// the pattern's function
			in = true
		}
		if n.K == "p" && n.I == probeID {
			if in {
				found = true
				return
			}
			// the probe that reports the pattern's string of case tags / the result of its function
			Walk(n.Ns, func(k *N) {
				if (k.K == "id" || k.K == "call") && swAgainName.MatchString(k.S) {
					found = true
				}
			})
			return
		}
		for _, k := range n.Ns {
			walk(k, in)
		}
		for _, b := range n.Ss {
			for _, k := range b {
				walk(k, in)
			}
		}
	}
	for _, s := range stmts {
		walk(s, false)
	}
	return found
}
