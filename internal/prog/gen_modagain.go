package prog

import "fmt"

// ---------- by-construction pattern of Profile.ModAgain (C04) ----------

// moduleAgain: a module statement for a name that already names a module (or a plain value) further
// out. A module statement binds its name in the CURRENT block like var does, and its body runs in a
// fresh scope whose parent is that block: what the inner module binds is reachable through the name
// only until the block ends, the outer module is what the name refers to afterwards (with exactly the
// members it had), and the inner body sees the locals of the block or function that declares it but
// not the members of the outer module. All names of the pattern are fresh (nothing else binds them).
//
//	module M { var ma = 1 }
//	<block form, one or two levels, function body, closure called twice> {
//	    var loc = 2
//	    module M { var mb = 3; p(loc); p(ma)?undef }
//	    p(M.mb); p(M.ma)?undef
//	}
//	p(M.ma); p(M.mb)?undef; p(mb)?undef
func (g *G) moduleAgain(c *gctx) []*N {
	g.feat("modagain")
	g.nextMod++
	k := g.nextMod
	M := fmt.Sprintf("mr%d", k)
	ma, mb, loc := fmt.Sprintf("ma%d", k), fmt.Sprintf("mb%d", k), fmt.Sprintf("ml%d", k)
	mem := func(member string) *N { return &N{K: "mem", Ns: []*N{Id(M)}, S: member} }
	see := func(e *N) *N { return &N{K: "expr", Ns: []*N{P1(g.id(), e)}} }
	// tryRead: p(e), or p("undef") when reading e raises
	tryRead := func(e *N) *N {
		return &N{K: "try", Ss: [][]*N{{see(e)}, {see(Str("undef"))}}}
	}

	// the outer binding of the name
	var outer []*N
	outerIsModule, withFn, same := true, false, false
	switch g.n(0, 7, "modagain_outer") {
	case 0:
		g.feat("modagain_outer_plain_value")
		outerIsModule = false
		outer = []*N{{K: "var", Ps: []string{M}, Ns: []*N{g.val()}}}
	case 1:
		g.feat("modagain_outer_module_with_function_member")
		withFn = true
		outer = []*N{{K: "module", S: M, Ss: [][]*N{{
			{K: "var", Ps: []string{ma}, Ns: []*N{g.val()}},
			{K: "expr", Ns: []*N{{K: "fn", S: "get" + ma, Ss: [][]*N{{{K: "ret", Ns: []*N{Id(ma)}}}}}}},
		}}}}
	default:
		g.feat("modagain_outer_module")
		outer = []*N{{K: "module", S: M, Ss: [][]*N{{{K: "var", Ps: []string{ma}, Ns: []*N{g.val()}}}}}}
	}

	where := g.n(0, 9, "modagain_where")
	insideOuter := where == 8 && outerIsModule
	// the inner module statement and what is seen of it from the declaring block
	innerBody := []*N{{K: "var", Ps: []string{mb}, Ns: []*N{g.val()}}}
	if g.chance(70) {
		g.feat("modagain_inner_body_reads_local_of_declaring_block")
		innerBody = append(innerBody, tryRead(Id(loc)))
	}
	if g.chance(50) {
		g.feat("modagain_inner_body_probes_outer_member")
		innerBody = append(innerBody, g.existOnly(ma))
	}
	if g.chance(30) {
		// a plain assignment inside the inner body creates a binding of the inner module only
		g.feat("modagain_inner_body_assigns_outer_member_name")
		innerBody = append(innerBody, &N{K: "let", Ps: []string{ma}, Ns: []*N{g.val()}}, see(Id(ma)))
	}
	inner := []*N{{K: "var", Ps: []string{loc}, Ns: []*N{g.val()}}, {K: "module", S: M, Ss: [][]*N{innerBody}}, see(mem(mb))}
	if g.chance(60) && !insideOuter {
		// (inside the outer module's own body the member name is bound in an enclosing scope of the inner
		// module: what a member lookup does then is not stated)
		inner = append(inner, tryRead(mem(ma)))
	}
	if g.chance(30) {
		inner = append(inner, g.existOnly(mb))
	}

	var mid []*N
	switch where {
	case 0:
		// in the same block: the second statement replaces the binding, the first module is gone
		g.feat("modagain_same_block")
		same = true
		mid = inner
	case 1, 2, 3:
		g.feat("modagain_one_level")
		mid = g.wrapBlock(c, inner, "modagain_in_")
	case 4, 5:
		g.feat("modagain_two_levels")
		mid = g.wrapBlock(c, g.wrapBlock(c, inner, "modagain_in_"), "modagain_around_")
	case 6, 7:
		// a named function declares it; called twice, from here and from inside a block
		g.feat("modagain_named_function_called_twice")
		fn := fmt.Sprintf("mf%d", k)
		body := append(append([]*N{}, inner...), &N{K: "ret", Ns: []*N{mem(mb)}})
		mid = []*N{
			{K: "expr", Ns: []*N{{K: "fn", S: fn, Ss: [][]*N{body}}}},
			see(&N{K: "call", S: fn}),
		}
		if outerIsModule {
			mid = append(mid, tryRead(mem(mb)))
		}
		mid = append(mid, g.wrapBlock(c, []*N{see(&N{K: "call", S: fn})}, "modagain_call_in_")...)
	case 8:
		// inside the body of the outer module itself (the name is visible there: it is bound in the
		// block that contains the module statement)
		if outerIsModule {
			g.feat("modagain_inside_outer_module_body")
			ob := outer[0].Ss[0]
			ob = append(ob, g.wrapBlock(c, inner, "modagain_in_")...)
			ob = append(ob, g.existOnly(mb))
			outer[0].Ss[0] = ob
			mid = nil
			break
		}
		fallthrough
	default:
		// the module statement sits in a closure that is created here and runs inside a block
		g.feat("modagain_closure_called_in_block")
		fn := fmt.Sprintf("mf%d", k)
		body := append(append([]*N{}, inner...), &N{K: "ret"})
		mid = []*N{{K: "let", Ps: []string{fn}, Ns: []*N{{K: "fn", Ss: [][]*N{body}}}}}
		calls := []*N{{K: "expr", Ns: []*N{{K: "call", S: fn}}}}
		if outerIsModule {
			calls = append(calls, tryRead(mem(mb)))
		}
		mid = append(mid, g.wrapBlock(c, calls, "modagain_call_in_")...)
	}

	out := append(outer, mid...)
	// afterwards: the name refers to what it referred to before
	switch {
	case same:
		// same block: the name now is the second module
		out = append(out, see(mem(mb)), tryRead(mem(ma)))
	case outerIsModule:
		out = append(out, see(mem(ma)), tryRead(mem(mb)))
		if withFn {
			out = append(out, see(&N{K: "acall", Ns: []*N{mem("get" + ma)}}))
		}
	default:
		out = append(out, see(Id(M)))
	}
	out = append(out, g.existOnly(mb), g.existOnly(loc))
	return out
}
