package prog

import (
	"fmt"
	"sort"
	"strings"
	"time"

	"verif/internal/ank"
)

// Verdict is the result of comparing anko against the model on one program.
type Verdict struct {
	Src      string
	Excluded string   // non-empty: the program left the specified domain (counted, not judged)
	Out      *Outcome // model outcome under the code's current parameterisation (or the matching one)
	Cfg      Cfg
	OK       bool
	Clause   string // which observation differed (trace / error / value / bindings / host-panic)
	Detail   string
	GotTrace []string
	GotErr   error
	GotValue interface{}
}

const ModelBudget = 40000

// hangReported: a non-terminating run was reported by Judge in this process.
var hangReported bool

// lateTimeouts counts the programs that did not terminate within 2 s after a hang was reported.
var lateTimeouts int

// canonTrace sorts maximal runs of entries produced by probes with negative ids
// (multi-entry map loops: iteration order is unspecified).
func canonTrace(tr []string) []string {
	out := append([]string{}, tr...)
	i := 0
	for i < len(out) {
		if !strings.HasPrefix(out[i], "p i:-") {
			i++
			continue
		}
		j := i
		for j < len(out) && strings.HasPrefix(out[j], "p i:-") {
			j++
		}
		sort.Strings(out[i:j])
		i = j
	}
	return out
}

// Judge runs the program in anko and in the model under every admitted parameterisation.
func Judge(stmts []*N) *Verdict {
	v := &Verdict{Src: Print(stmts)}
	base := Run(stmts, Cfg{}, ModelBudget)
	v.Out = base
	if base.Unspecified != "" {
		v.Excluded = base.Unspecified
		return v
	}
	// every generated program terminates within the model's step budget (tiny programs): a run
	// that is still going after 5 s is repeated alone with 30 s before it is called a hang. Once a
	// hang has been reported in this process, later runs get 2 s and are excluded when they exceed it
	host := NewHostFor(v.Src)
	first := 5 * time.Second
	if hangReported {
		first = 2 * time.Second
	}
	if hangReported && lateTimeouts > 10 {
		// the change under test makes many programs hang: the hang is reported, every further one would
		// cost seconds without telling anything new
		v.Excluded = "not run: a hang was reported in this process and more than 10 later programs did not terminate either"
		return v
	}
	val, err, timedOut := host.ExecTimeout(v.Src, first)
	if timedOut && hangReported {
		lateTimeouts++
		v.Excluded = "did not terminate within 2 s (a hang was already reported in this process)"
		return v
	}
	if timedOut {
		host = NewHostFor(v.Src)
		val, err, timedOut = host.ExecTimeout(v.Src, 30*time.Second)
		if timedOut {
			hangReported = true
			v.GotTrace, v.GotErr = host.Trace, err
			v.Clause = "no-termination"
			n := len(host.Trace)
			if n > 30 {
				n = 30
			}
			v.Detail = fmt.Sprintf("the model finishes this program within %d steps; anko was still running it after 30 s (first probe entries: %v)", ModelBudget, host.Trace[:n])
			return v
		}
	}
	v.GotTrace, v.GotErr, v.GotValue = host.Trace, err, val
	if hp, ok := ank.IsHostPanic(err); ok {
		v.Clause = "host-panic"
		v.Detail = fmt.Sprintf("escaped panic: %v", hp.Value)
		return v
	}
	gotTrace := canonTrace(host.Trace)
	var firstDetail, firstClause, unspecUnder string
	for i, cfg := range AllCfgs() {
		out := base
		if i > 0 {
			out = Run(stmts, cfg, ModelBudget)
			if out.Unspecified != "" {
				// under this admitted reading the program leaves the specified domain: if no other
				// reading explains the run, nothing can be said about it
				unspecUnder = out.Unspecified
				continue
			}
		}
		clause, detail := compare(out, gotTrace, val, err, host)
		if clause == "" {
			v.OK = true
			v.Cfg = cfg
			v.Out = out
			return v
		}
		if i == 0 {
			firstClause, firstDetail = clause, detail
		}
	}
	if unspecUnder != "" {
		v.Excluded = "under an admitted reading of the under-specified choices: " + unspecUnder
		return v
	}
	v.Clause, v.Detail = firstClause, firstDetail
	if host.Nested {
		v.Detail += "\n(environment: the program ran in a child, with an external lookup that knows no name, of the environment holding the host functions)"
	}
	return v
}

func compare(out *Outcome, gotTrace []string, val interface{}, err error, host *Host) (string, string) {
	want := canonTrace(out.Trace)
	if i, ok := MatchTrace(want, gotTrace); !ok {
		w, g := "<end of trace>", "<end of trace>"
		if i < len(want) {
			w = want[i]
		}
		if i < len(gotTrace) {
			g = gotTrace[i]
		}
		return "trace", fmt.Sprintf("trace differs at entry %d: model %q, anko %q\nmodel trace: %v\nanko trace:  %v", i, w, g, want, gotTrace)
	}
	if (out.Err != nil) != (err != nil) {
		return "error-presence", fmt.Sprintf("model error: %v, anko error: %v", out.Err != nil, err)
	}
	if out.Err != nil {
		if out.Err.Known && err.Error() != out.Err.Msg {
			return "error-text", fmt.Sprintf("model error text %q, anko %q", out.Err.Msg, err.Error())
		}
	} else if out.ValueKnown {
		if !Match(Render(out.Value), RenderGo(val)) {
			return "value", fmt.Sprintf("model value %s, anko %s", Render(out.Value), RenderGo(val))
		}
	}
	if host == nil {
		// a run whose top-level bindings are not observed (shared.go: the program ran as a function body)
		return "", ""
	}
	// final top-level bindings of the pool names
	for _, nm := range pool {
		mv, mok := out.Top.vars[nm]
		gv, gerr := host.Env.Get(nm)
		if mok != (gerr == nil) {
			return "bindings", fmt.Sprintf("top-level %s: model bound=%v, anko bound=%v", nm, mok, gerr == nil)
		}
		if mok && !Match(Render(mv), RenderGo(gv)) {
			return "bindings", fmt.Sprintf("top-level %s: model %s, anko %s", nm, Render(mv), RenderGo(gv))
		}
	}
	return "", ""
}

// Kinds returns the set of statement/expression kinds in the program.
func Kinds(stmts []*N) map[string]int {
	m := map[string]int{}
	Walk(stmts, func(n *N) { m[n.K]++ })
	return m
}
