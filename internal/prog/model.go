package prog

import (
	"fmt"
	"math"
	"sort"
	"strconv"
	"strings"
)

// ---------- model values ----------

type List struct{ E []interface{} }
type Map struct {
	K []interface{}
	V []interface{}
}
type Func struct {
	Name   string
	Params []string
	VarArg bool
	Body   []*N
	Env    *Scope
	Host   string   // "p" or "pfail" or a g* host function, "" for script functions
	HP     []string // host parameter types: any | int64 | string
	HV     bool     // host function is variadic (last HP entry is the element type)
}
type ErrV struct {
	Msg   string
	Known bool // message is fixed by the statement (throw of a value); otherwise only presence is compared
}
type Module struct{ Env *Scope }

// HostFuncs are the Go functions the probe environment offers besides p and pfail
// (see host.go for their Go implementations): each returns the list of the arguments
// it received.
var HostFuncs = map[string]*Func{
	"gfix1":  {Host: "gfix1", HP: []string{"any"}},
	"gfix2":  {Host: "gfix2", HP: []string{"any", "any"}},
	"gfix3":  {Host: "gfix3", HP: []string{"any", "any", "any"}},
	"gfix5":  {Host: "gfix5", HP: []string{"any", "any", "any", "any", "any"}},
	"gvar":   {Host: "gvar", HP: []string{"any", "any"}, HV: true},
	"gtyped": {Host: "gtyped", HP: []string{"int64", "string", "int64"}},
	"gtvar":  {Host: "gtvar", HP: []string{"string", "int64"}, HV: true},
	// gcall0(f) calls the script function f(); geach(list, f) calls f(x) for every element. Both
	// Go parameters are func types WITHOUT results; an error raised by the callback comes back
	// to the caller of the Go function
	"gcall0": {Host: "gcall0", HP: []string{"func"}},
	"geach":  {Host: "geach", HP: []string{"any", "func"}},
	// gderef(p, b) dereferences the pointer p and returns [*p, b]; the model treats &e as e
	"gderef": {Host: "gderef", HP: []string{"any", "any"}},
	// gset(&name, v): a Go func(p *int64, v int64) that stores v through p (modelled apart, see callHost)
	"gset": {Host: "gset", HP: []string{"int64", "int64"}},
}

// TypedNil is a nil Go pointer of a concrete type (an element of the host slice hnilptrs): nil for
// ==, ?? and truthiness; anything else done with it is not specified here.
type TypedNil struct{ T string }

// HostArr is the model of harr, a Go array value ([3]int64{5, 6, 7}) bound by the host: it can be
// indexed; slicing it fails inside the interpreter (a Go array held by value is not addressable).
type HostArr struct{ E []interface{} }

// hostConv converts v for a Go parameter of type typ; false = no conversion exists.
func hostConv(v interface{}, typ string) (interface{}, bool) {
	if cv, ok, done := hostConvExt(v, typ); done { // host_conv.go
		return cv, ok
	}
	switch typ {
	case "any":
		return v, true
	case "int64":
		if v == nil {
			return int64(0), true // nil converts to the zero value of the wanted type
		}
		if i, ok := v.(int64); ok {
			return i, true
		}
		return nil, false
	case "string":
		if v == nil {
			return "", true
		}
		if s, ok := v.(string); ok {
			return s, true
		}
		return nil, false
	case "func":
		if f, ok := v.(*Func); ok && f.Host == "" {
			return f, true
		}
		return nil, false
	case "interface":
		// the element type of map[string]interface{...}: any value
		return v, true
	}
	// element types that are themselves slices or maps (gen_ctlvals.go): a list / a map as it is (the
	// generators give elements of the matching type only)
	if strings.HasPrefix(typ, "[]") {
		if _, ok := v.(*List); ok {
			return v, true
		}
	}
	if strings.HasPrefix(typ, "map[") {
		if _, ok := v.(*Map); ok {
			return v, true
		}
	}
	return nil, false
}

type Scope struct {
	vars   map[string]interface{}
	parent *Scope
}

func NewScope(parent *Scope) *Scope { return &Scope{parent: parent} }

func (s *Scope) lookup(name string) (interface{}, *Scope, bool) {
	for e := s; e != nil; e = e.parent {
		if v, ok := e.vars[name]; ok {
			return v, e, true
		}
	}
	return nil, nil, false
}

func (s *Scope) define(name string, v interface{}) {
	if s.vars == nil {
		s.vars = map[string]interface{}{}
	}
	s.vars[name] = v
}

// assign = update nearest binding, else define here.
func (s *Scope) assign(name string, v interface{}) {
	if _, e, ok := s.lookup(name); ok {
		e.vars[name] = v
		return
	}
	s.define(name, v)
}

// Cfg selects among the behaviours the statements leave open (DESIGN §2.4).
type Cfg struct {
	// TryGroups: how try / catch / finally blocks share scopes: 0 one scope for all three (the
	// code's current choice), 1 one scope each, 2 try alone and catch+finally together, 3 try+catch
	// together and finally alone
	TryGroups          int
	LoopPerIter        bool // loop body scope per iteration (default: one per loop execution)
	FinallyAfterAbrupt bool // finally also runs when the catch block exits abruptly (default: no)
	// AddrNoWriteBack: what a Go function stores through `&name` does not reach the variable at all
	// (default: it is assigned to the name after the call, the way the interpreter's own tests show it).
	// No scope statement says which; both readings agree that the call binds nothing new
	AddrNoWriteBack bool
}

// AllCfgs enumerates the admitted parameterisations, the code's current choice first.
func AllCfgs() []Cfg {
	var out []Cfg
	for _, a := range []int{0, 1, 2, 3} {
		for _, b := range []bool{false, true} {
			for _, c := range []bool{false, true} {
				out = append(out, Cfg{TryGroups: a, LoopPerIter: b, FinallyAfterAbrupt: c})
			}
		}
	}
	// the second reading of `&name` arguments last: it only matters to programs that call gset
	for _, k := range append([]Cfg{}, out...) {
		k.AddrNoWriteBack = true
		out = append(out, k)
	}
	return out
}

type sig int

const (
	sNone sig = iota
	sBreak
	sCont
	sRet
	sErr
)

type ctl struct {
	s   sig
	val interface{} // return value
	err *ErrV
}

var ok0 = ctl{}

// Outcome is what the model predicts for a program.
type Outcome struct {
	Trace       []string
	Err         *ErrV       // nil = success
	Value       interface{} // final value if ValueKnown
	ValueKnown  bool
	Unspecified string // non-empty: the program left the specified domain; not a usable expectation
	Steps       int
	Top         *Scope
	Feat        map[string]int // dynamic feature counters (for class statistics / non-triviality)
}

type invocation struct {
	defers []deferred
	sw     map[*N]*N // the case that matched last, per switch statement (model_switchagain.go: counters only)
}
type deferred struct {
	fn   *Func
	args []interface{}
}

type Model struct {
	cfg        Cfg
	out        *Outcome
	budget     int
	inv        []*invocation
	depth      int
	dead       map[string]bool // names that were bound in a scope that has ended
	live       []liveScope
	inDeferred int
}

var sigNames = [...]string{"normal", "break", "continue", "return", "error"}

type liveScope struct {
	kind string
	sc   *Scope
}

// newScope creates a child scope and remembers it until the statement (or call) that
// created it ends.
func (m *Model) newScope(kind string, parent *Scope) *Scope {
	sc := NewScope(parent)
	m.live = append(m.live, liveScope{kind, sc})
	return sc
}

// assign = update nearest binding, else define in sc (with feature accounting).
func (m *Model) assign(sc *Scope, name string, v interface{}) {
	if _, e, ok := sc.lookup(name); ok {
		if e != sc {
			m.feat("assign_updates_outer")
		}
		e.vars[name] = v
		return
	}
	if sc != m.out.Top {
		m.feat("local_create")
	}
	sc.define(name, v)
}

// defineVar always binds in sc.
func (m *Model) defineVar(sc *Scope, name string, v interface{}) {
	if _, e, ok := sc.lookup(name); ok && e != sc {
		m.feat("shadow_define")
	}
	sc.define(name, v)
}

// endScopes records that the scopes created since mark were left with control c.
func (m *Model) endScopes(mark int, c ctl) {
	for len(m.live) > mark {
		ls := m.live[len(m.live)-1]
		m.live = m.live[:len(m.live)-1]
		m.feat("exit_" + ls.kind + "_" + sigNames[c.s])
		for name := range ls.sc.vars {
			if m.dead == nil {
				m.dead = map[string]bool{}
			}
			m.dead[name] = true
		}
	}
}

type unspecified struct{ why string }

// Run evaluates the program under cfg.
func Run(stmts []*N, cfg Cfg, budget int) (out *Outcome) {
	out = &Outcome{Feat: map[string]int{}}
	m := &Model{cfg: cfg, out: out, budget: budget}
	top := NewScope(nil)
	top.define("p", &Func{Host: "p"})
	top.define("pfail", &Func{Host: "pfail"})
	// pd(tag, args...) logs every argument it received; pd3 and pdi are the same probe with a fixed
	// and a typed parameter list (the generators call them with matching counts and types only)
	for _, name := range []string{"pd", "pd3", "pdi"} {
		top.define(name, &Func{Host: "pd"})
	}
	for name, f := range HostFuncs {
		top.define(name, f)
	}
	// host variables: hnil / hnilm are nil Go maps (no entries), harr a Go array
	top.define("hnil", &Map{})
	top.define("hnilm", &Map{})
	top.define("harr", &HostArr{E: []interface{}{int64(5), int64(6), int64(7)}})
	// hnilptrs is a Go []*int64 holding three nil pointers: three elements, each nil
	np := &TypedNil{T: "*int64"}
	top.define("hnilptrs", &List{E: []interface{}{np, np, np}})
	// hst is a pointer to a Go struct {F int64; S string; A [2]int64}: fields read and assigned by name
	top.define("hst", &Map{K: []interface{}{"F", "S", "A"}, V: []interface{}{int64(7), "g", &List{E: []interface{}{int64(1), int64(2)}}}})
	// hbox is a pointer to a Go struct {Row []int64; Items []string; M map[string]int64} (gen_ctlvals.go)
	top.define("hbox", &Map{K: []interface{}{"Row", "Items", "M"}, V: []interface{}{&List{E: []interface{}{int64(1), int64(2)}}, &List{E: []interface{}{"a", "b"}}, &Map{K: []interface{}{"a"}, V: []interface{}{int64(1)}}}})
	out.Top = top
	defer func() {
		if r := recover(); r != nil {
			if u, ok := r.(unspecified); ok {
				out.Unspecified = u.why
				return
			}
			panic(r)
		}
	}()
	m.inv = append(m.inv, &invocation{})
	c := m.block(stmts, top)
	c = m.runDefers(c)
	switch c.s {
	case sErr:
		out.Err = c.err
	case sRet:
		out.Value = c.val
		out.ValueKnown = true
	case sBreak, sCont:
		// anko reports "unexpected break/continue statement" as an error
		out.Err = &ErrV{Msg: "unexpected", Known: false}
	}
	return out
}

func (m *Model) unspec(format string, args ...interface{}) {
	panic(unspecified{fmt.Sprintf(format, args...)})
}

func (m *Model) step() {
	m.out.Steps++
	if m.out.Steps > m.budget {
		m.unspec("model step budget exceeded")
	}
}

func (m *Model) feat(s string) { m.out.Feat[s]++ }

func errc(msg string, known bool) ctl { return ctl{s: sErr, err: &ErrV{Msg: msg, Known: known}} }

// block runs statements in scope sc (no new scope).
func (m *Model) block(stmts []*N, sc *Scope) ctl {
	for _, s := range stmts {
		if c := m.stmt(s, sc); c.s != sNone {
			return c
		}
	}
	return ok0
}

func (m *Model) stmt(s *N, sc *Scope) ctl {
	mark := len(m.live)
	c := m.stmt1(s, sc)
	m.endScopes(mark, c)
	return c
}

func (m *Model) stmt1(s *N, sc *Scope) ctl {
	m.step()
	switch s.K {
	case "none":
		return ok0
	case "expr":
		_, c := m.eval(s.Ns[0], sc)
		return c
	case "let":
		vs := make([]interface{}, len(s.Ns))
		for i, e := range s.Ns {
			v, c := m.eval(e, sc)
			if c.s != sNone {
				return c
			}
			if _, isMod := v.(*Module); isMod {
				m.unspec("module assigned to a name (deep copy semantics)")
			}
			vs[i] = v
		}
		if len(vs) == 1 && len(s.Ps) > 1 {
			if l, ok := vs[0].(*List); ok && len(l.E) > 0 {
				for i := 0; i < len(l.E) && i < len(s.Ps); i++ {
					m.assign(sc, s.Ps[i], l.E[i])
				}
				return ok0
			}
		}
		for i := 0; i < len(vs) && i < len(s.Ps); i++ {
			m.assign(sc, s.Ps[i], vs[i])
		}
		return ok0
	case "letmap":
		// `v, ok = m[k]`: v is the entry (nil when absent), ok whether a non-nil entry was found;
		// both are ordinary assignments
		v, c := m.eval(&N{K: "idx", Ns: s.Ns}, sc)
		if c.s != sNone {
			return c
		}
		m.feat("map_lookup_two_values")
		m.assign(sc, s.Ps[0], v)
		m.assign(sc, s.Ps[1], v != nil)
		return ok0
	case "letchan":
		// receive from an open buffered channel holding one value: ordinary assignments
		v, c := m.eval(s.Ns[0], sc)
		if c.s != sNone {
			return c
		}
		m.feat("chan_receive_assignment")
		if len(s.Ps) > 1 {
			m.assign(sc, s.Ps[1], true)
		}
		m.assign(sc, s.Ps[0], v)
		return ok0
	case "var":
		vs := make([]interface{}, len(s.Ns))
		for i, e := range s.Ns {
			v, c := m.eval(e, sc)
			if c.s != sNone {
				return c
			}
			if _, isMod := v.(*Module); isMod {
				m.unspec("module assigned to a name (deep copy semantics)")
			}
			vs[i] = v
		}
		if len(vs) == 1 && len(s.Ps) > 1 {
			if l, ok := vs[0].(*List); ok && len(l.E) > 0 {
				for i := 0; i < len(l.E) && i < len(s.Ps); i++ {
					m.defineVar(sc, s.Ps[i], l.E[i])
				}
				return ok0
			}
		}
		for i := 0; i < len(vs) && i < len(s.Ps); i++ {
			m.defineVar(sc, s.Ps[i], vs[i])
		}
		return ok0
	case "setup":
		// preparation text that touches nothing the model tracks
		return ok0
	case "letderef":
		// *name = value, where name was bound by `name = &x` to the address of a variable x that is never
		// used again: the model holds the pointee under the pointer's name (& is transparent)
		val, c := m.eval(s.Ns[1], sc)
		if c.s != sNone {
			return c
		}
		if s.Ns[0].K != "id" {
			m.unspec("assignment through a pointer that is not a plain name")
		}
		if _, _, ok := sc.lookup(s.Ns[0].S); !ok {
			return errc("undefined symbol", false)
		}
		m.assign(sc, s.Ns[0].S, val)
		return ok0
	case "letmem":
		// target.S = value (the generators keep both sides free of probes: their order is not stated)
		val, c := m.eval(s.Ns[1], sc)
		if c.s != sNone {
			return c
		}
		tgt, c := m.eval(s.Ns[0], sc)
		if c.s != sNone {
			return c
		}
		mp, ok := tgt.(*Map)
		if !ok {
			m.unspec("member assignment on %T", tgt)
		}
		mp.set(s.S, val)
		return ok0
	case "letidx":
		val, c := m.eval(s.Ns[2], sc)
		if c.s != sNone {
			return c
		}
		tgt, c := m.eval(s.Ns[0], sc)
		if c.s != sNone {
			return c
		}
		idx, c := m.eval(s.Ns[1], sc)
		if c.s != sNone {
			return c
		}
		switch t := tgt.(type) {
		case *List:
			i, ok := idx.(int64)
			if !ok {
				m.unspec("list index of non-int")
			}
			if i == int64(len(t.E)) {
				m.unspec("append through index assignment")
			}
			if i < 0 || i > int64(len(t.E)) {
				return errc("index out of range", false)
			}
			t.E[i] = val
		case *Map:
			t.set(idx, val)
		default:
			m.unspec("index assignment on %T", tgt)
		}
		return ok0
	case "if":
		for i, ce := range s.Ns {
			v, c := m.eval(ce, sc)
			if c.s != sNone {
				return c
			}
			if m.truthy(v) {
				m.feat("if_taken")
				return m.block(s.Ss[i], m.newScope("if", sc))
			}
		}
		if s.B {
			m.feat("else_taken")
			return m.block(s.Ss[len(s.Ns)], m.newScope("else", sc))
		}
		return ok0
	case "loop":
		ls := m.newScope("loop", sc)
		lastCont, rounds := false, 0
		for {
			m.step()
			if len(s.Ns) > 0 {
				v, c := m.eval(s.Ns[0], ls)
				if c.s != sNone {
					m.headerRaised(c, "loop_condition", lastCont, rounds)
					return c
				}
				if !m.truthy(v) {
					break
				}
			}
			bs := ls
			if m.cfg.LoopPerIter {
				bs = m.newScope("iter", ls)
			}
			c := m.block(s.Ss[0], bs)
			lastCont, rounds = c.s == sCont, rounds+1
			if brk, out := m.loopCtl(c, "loop"); out != nil {
				return *out
			} else if brk {
				break
			}
		}
		return ok0
	case "cfor":
		ls := m.newScope("cfor", sc)
		if s.Ns[0].K != "none" {
			if c := m.stmt(s.Ns[0], ls); c.s != sNone {
				return c
			}
		}
		lastCont, rounds := false, 0
		for {
			m.step()
			if s.Ns[1].K != "none" {
				v, c := m.eval(s.Ns[1], ls)
				if c.s != sNone {
					m.headerRaised(c, "cfor_condition", lastCont, rounds)
					return c
				}
				if !m.truthy(v) {
					break
				}
			}
			bs := ls
			if m.cfg.LoopPerIter {
				bs = m.newScope("iter", ls)
			}
			c := m.block(s.Ss[0], bs)
			lastCont, rounds = c.s == sCont, rounds+1
			if c.s == sCont {
				m.feat("continue_in_cfor")
			}
			if brk, out := m.loopCtl(c, "cfor"); out != nil {
				return *out
			} else if brk {
				break
			}
			if s.Ns[2].K != "none" {
				if _, c := m.eval(s.Ns[2], ls); c.s != sNone {
					m.headerRaised(c, "cfor_post", lastCont, rounds)
					return c
				}
			}
		}
		return ok0
	case "forin":
		it, c := m.eval(s.Ns[0], sc)
		if c.s != sNone {
			return c
		}
		ls := m.newScope("forin", sc)
		switch t := it.(type) {
		case *List:
			// anko iterates over the slice header as it was when the loop started;
			// the elements themselves are read live
			n0 := len(t.E)
			for i := 0; i < n0 && i < len(t.E); i++ {
				v := t.E[i]
				m.step()
				bs := ls
				if m.cfg.LoopPerIter {
					bs = m.newScope("iter", ls)
				}
				m.defineVar(bs, s.Ps[0], v)
				c := m.block(s.Ss[0], bs)
				if brk, out := m.loopCtl(c, "forin"); out != nil {
					return *out
				} else if brk {
					break
				}
			}
		case *Map:
			keys, valsOf := t.sorted()
			for i, k := range keys {
				m.step()
				bs := ls
				if m.cfg.LoopPerIter {
					bs = m.newScope("iter", ls)
				}
				m.defineVar(bs, s.Ps[0], k)
				if len(s.Ps) > 1 {
					m.defineVar(bs, s.Ps[1], valsOf[i])
				}
				c := m.block(s.Ss[0], bs)
				if brk, out := m.loopCtl(c, "formap"); out != nil {
					return *out
				} else if brk {
					if len(keys) > 1 {
						m.unspec("break out of a multi-entry map loop (order dependent)")
					}
					break
				}
			}
		default:
			return errc("for cannot loop over type", false)
		}
		return ok0
	case "switch":
		ss := m.newScope("switch", sc)
		subj, c := m.eval(s.Ns[0], ss)
		if c.s != sNone {
			return c
		}
		var def *N
		for _, cn := range s.Ns[1:] {
			if cn.K == "default" {
				if def != nil {
					m.unspec("two default clauses")
				}
				def = cn
				continue
			}
		}
		for _, cn := range s.Ns[1:] {
			if cn.K != "case" {
				continue
			}
			for _, ce := range cn.Ns {
				v, c := m.eval(ce, ss)
				if c.s != sNone {
					return c
				}
				if m.equal(v, subj) {
					m.feat("case_matched")
					m.noteSwitch(s, cn, subj, ss) // model_switchagain.go: counters only
					return m.block(cn.Ss[0], ss)
				}
			}
		}
		if def != nil {
			m.feat("default_taken")
			return m.block(def.Ss[0], ss)
		}
		return ok0
	case "try":
		ts := m.newScope("try", sc)
		if m.inDeferred > 0 {
			m.feat("try_in_deferred_callee")
		}
		c := m.block(s.Ss[0], ts)
		var catchScope *Scope
		switch c.s {
		case sBreak, sCont, sRet:
			m.unspec("control signal leaves a try body (finding F-try-signal)")
		case sErr:
			m.feat("error_caught")
			cs := ts
			if m.cfg.TryGroups == 1 || m.cfg.TryGroups == 2 {
				cs = m.newScope("catch", sc)
			}
			catchScope = cs
			if s.S != "" {
				if old, _, ok := cs.lookup(s.S); ok {
					if _, isErr := old.(*ErrV); isErr {
						// a catch variable of that name is still live (gen_errflow.go): this try binds its own
						m.feat("catch_variable_name_already_holds_a_caught_error")
					}
				}
				m.defineVar(cs, s.S, c.err)
			}
			c2 := m.block(s.Ss[1], cs)
			if c2.s != sNone {
				m.feat("catch_exits_abruptly")
				if s.B && m.cfg.FinallyAfterAbrupt {
					if c3 := m.block(s.Ss[2], m.finallyScope(ts, catchScope, sc)); c3.s != sNone {
						return c3
					}
				}
				return c2
			}
		}
		if s.B {
			m.feat("finally_run")
			return m.block(s.Ss[2], m.finallyScope(ts, catchScope, sc))
		}
		return ok0
	case "throw":
		v, c := m.eval(s.Ns[0], sc)
		if c.s != sNone {
			return c
		}
		m.feat("throw")
		if ev, ok := v.(*ErrV); ok {
			// a caught error thrown again: the new error prints as the caught one did
			m.feat("rethrow_of_a_caught_error")
			return ctl{s: sErr, err: &ErrV{Msg: ev.Msg, Known: ev.Known}}
		}
		return errc(goSprint(v), true)
	case "ret":
		switch len(s.Ns) {
		case 0:
			return ctl{s: sRet, val: nil}
		case 1:
			v, c := m.eval(s.Ns[0], sc)
			if c.s != sNone {
				return c
			}
			return ctl{s: sRet, val: v}
		}
		l := &List{}
		for _, e := range s.Ns {
			v, c := m.eval(e, sc)
			if c.s != sNone {
				return c
			}
			l.E = append(l.E, v)
		}
		return ctl{s: sRet, val: l}
	case "break":
		return ctl{s: sBreak}
	case "cont":
		return ctl{s: sCont}
	case "defer":
		call := s.Ns[0]
		var fv interface{}
		var args []*N
		switch call.K {
		case "call":
			v, _, ok := sc.lookup(call.S)
			if !ok {
				return errc("undefined symbol", false)
			}
			fv, args = v, call.Ns
		case "acall":
			v, c := m.eval(call.Ns[0], sc)
			if c.s != sNone {
				return c
			}
			fv, args = v, call.Ns[1:]
		case "p":
			fv, args = &Func{Host: "p"}, append([]*N{Int(call.I)}, call.Ns...)
		case "pfail":
			fv, args = &Func{Host: "pfail"}, []*N{Int(call.I)}
		}
		fn, ok := fv.(*Func)
		if !ok {
			return errc("cannot call type", false)
		}
		if call.B {
			// defer f(a, list...): evaluated like the spread call, at the defer statement
			if isConvCallee(fn) { // host_conv.go: operands evaluated and converted now, the callee has no effect
				_, c := m.callHost(fn, args, true, sc)
				if c.s == sNone {
					m.feat("defer_registered")
					m.feat("defer_with_spread_list")
				}
				return c
			}
			if fn.HP != nil || (fn.Host != "" && fn.Host != "pd") {
				m.unspec("spread in defer of a host function")
			}
			if fn.Host == "" && !fn.VarArg && len(fn.Params) == 0 {
				m.unspec("arguments passed to a parameterless function")
			}
			av := make([]interface{}, 0, len(args))
			for _, a := range args {
				v, c := m.eval(a, sc)
				if c.s != sNone {
					return c
				}
				av = append(av, v)
			}
			if len(av) == 0 {
				return errc("spread without argument", false)
			}
			l, ok := av[len(av)-1].(*List)
			if !ok {
				return errc("call is variadic but last parameter is not a list", false)
			}
			av = append(av[:len(av)-1], l.E...)
			if fn.Host == "" && !fn.VarArg && len(av) < len(fn.Params) {
				return errc("function wants N arguments", false)
			}
			if fn.Host == "" && !fn.VarArg && len(av) > len(fn.Params) {
				m.unspec("spread list longer than the parameter list")
			}
			if fn.VarArg && len(av) < len(fn.Params)-1 {
				return errc("function wants N arguments", false)
			}
			cur := m.inv[len(m.inv)-1]
			cur.defers = append(cur.defers, deferred{fn: fn, args: av})
			m.feat("defer_registered")
			m.feat("defer_with_spread_list")
			return ok0
		}
		if fn.Host == "gset" {
			// defer gset(&name, v) (gen_deferaddr.go): registered like every deferred call, both operands
			// are evaluated at the defer statement. What the Go function stores through the pointer when
			// it runs is not followed: whether it reaches the variable is not stated anywhere, and the
			// generator never reads the variable after the deferred call has run
			if len(args) != 2 || args[0].K != "addr" || args[0].Ns[0].K != "id" {
				m.unspec("deferred gset called with something else than (&name, value)")
			}
			av := make([]interface{}, 0, 2)
			for _, a := range args {
				v, c := m.eval(a, sc)
				if c.s != sNone {
					return c
				}
				if _, isInt := v.(int64); !isInt {
					m.unspec("deferred gset on a variable / of a value that is not an int")
				}
				av = append(av, v)
			}
			cur := m.inv[len(m.inv)-1]
			cur.defers = append(cur.defers, deferred{fn: fn, args: av})
			m.feat("defer_registered")
			return ok0
		}
		if fn.HP != nil {
			// typed Go function: operands are evaluated and converted at the defer
			// statement; the functions themselves are free of side effects
			_, c := m.callHost(fn, args, false, sc)
			if c.s == sNone {
				m.feat("defer_registered")
			}
			return c
		}
		if fn.Host == "" {
			if !fn.VarArg && len(fn.Params) == 0 && len(args) > 0 {
				m.unspec("arguments passed to a parameterless function")
			}
			if (!fn.VarArg && len(args) != len(fn.Params)) || (fn.VarArg && len(args) < len(fn.Params)-1) {
				return errc("function wants N arguments", false)
			}
		}
		av := make([]interface{}, 0, len(args))
		for _, a := range args {
			v, c := m.eval(a, sc)
			if c.s != sNone {
				return c
			}
			av = append(av, v)
		}
		cur := m.inv[len(m.inv)-1]
		cur.defers = append(cur.defers, deferred{fn: fn, args: av})
		m.feat("defer_registered")
		return ok0
	case "opidx":
		// a[i] op= e  stands for  a[i] = a[i] op e : the operands of the target are
		// evaluated twice, e once. Their relative order is not specified, so the
		// generators give the probes inside this statement negative ids (compared as a multiset).
		var last interface{}
		for round := 0; round < 2; round++ {
			tv, c := m.eval(s.Ns[0], sc)
			if c.s != sNone {
				return c
			}
			iv, c := m.eval(s.Ns[1], sc)
			if c.s != sNone {
				return c
			}
			l, ok := tv.(*List)
			ix, ok2 := iv.(int64)
			if !ok || !ok2 || ix < 0 || ix >= int64(len(l.E)) {
				m.unspec("index target outside the always-valid range used by the generators")
			}
			if round == 0 {
				var rv interface{} = int64(1) // a[i]++ / a[i]--
				if len(s.Ns) > 2 {
					var c ctl
					rv, c = m.eval(s.Ns[2], sc)
					if c.s != sNone {
						return c
					}
				}
				last = m.binop(s.Ps[0], l.E[ix], rv)
			} else {
				l.E[ix] = last
			}
		}
		return ok0
	case "go":
		// the operands of a go call are evaluated by the caller, in order; the callee
		// (which the generators keep free of probes) then runs concurrently
		call := s.Ns[0]
		var fv interface{}
		var args []*N
		switch call.K {
		case "call":
			v, _, ok := sc.lookup(call.S)
			if !ok {
				return errc("undefined symbol", false)
			}
			fv, args = v, call.Ns
		case "acall":
			v, c := m.eval(call.Ns[0], sc)
			if c.s != sNone {
				return c
			}
			fv, args = v, call.Ns[1:]
		default:
			m.unspec("go of %s", call.K)
		}
		fn, ok := fv.(*Func)
		if !ok {
			return errc("cannot call type", false)
		}
		// evaluate exactly like a call, discard the result (errors inside the callee are lost)
		if fn.HP != nil {
			_, c := m.callHost(fn, args, call.B, sc)
			return c
		}
		if (!fn.VarArg && len(args) != len(fn.Params)) || (fn.VarArg && len(args) < len(fn.Params)-1) {
			if !call.B {
				return errc("function wants N arguments", false)
			}
		}
		for _, a := range args {
			if _, c := m.eval(a, sc); c.s != sNone {
				return c
			}
		}
		return ok0
	case "module":
		ms := m.newScope("module", sc)
		sc.define(s.S, &Module{Env: ms})
		return m.block(s.Ss[0], ms)
	}
	m.unspec("model: unknown statement kind %s", s.K)
	return ok0
}

// finallyScope picks the scope of a finally block under the admitted groupings.
func (m *Model) finallyScope(try, catch, outer *Scope) *Scope {
	switch m.cfg.TryGroups {
	case 0:
		return try
	case 2:
		if catch != nil {
			return catch
		}
	}
	return m.newScope("finally", outer)
}

// loopCtl interprets the control result of a loop body:
// returns (break?, non-nil ctl to propagate).
func (m *Model) loopCtl(c ctl, kind string) (bool, *ctl) {
	switch c.s {
	case sNone:
		return false, nil
	case sCont:
		m.feat("continue_consumed_" + kind)
		return false, nil
	case sBreak:
		m.feat("break_consumed_" + kind)
		return true, nil
	case sRet:
		m.feat("return_through_" + kind)
	}
	return false, &c
}

func (m *Model) runDefers(c ctl) ctl {
	cur := m.inv[len(m.inv)-1]
	m.inv = m.inv[:len(m.inv)-1]
	if len(cur.defers) == 0 {
		return c
	}
	failed := 0
	var derr *ErrV
	nd := len(cur.defers)
	if nd > 3 {
		nd = 3
	}
	m.feat(fmt.Sprintf("invocation_exit_%s_pending_defers_%d", sigNames[c.s], nd))
	if len(cur.defers) >= 2 && (c.s == sErr || c.s == sRet) {
		m.feat("abrupt_exit_with_2plus_defers")
	}
	for i := len(cur.defers) - 1; i >= 0; i-- {
		d := cur.defers[i]
		m.feat("defer_run")
		m.inDeferred++
		_, dc := m.apply(d.fn, d.args)
		m.inDeferred--
		if dc.s == sErr {
			failed++
			if derr == nil {
				derr = dc.err
			}
		}
	}
	if c.s == sErr {
		if failed > 0 {
			m.feat("deferred_error_after_body_error")
		}
		return c
	}
	if failed > 0 {
		m.feat("deferred_error_surfaces")
		e := &ErrV{Msg: derr.Msg, Known: derr.Known && failed == 1}
		return ctl{s: sErr, err: e}
	}
	return c
}

// apply calls fn with evaluated arguments.
func (m *Model) apply(fn *Func, args []interface{}) (interface{}, ctl) {
	m.step()
	switch fn.Host {
	case "p":
		if len(args) == 0 {
			m.unspec("p without id")
		}
		id := args[0]
		if len(args) > 1 {
			m.out.Trace = append(m.out.Trace, "p "+Render(id)+" "+Render(args[1]))
			return args[1], ok0
		}
		m.out.Trace = append(m.out.Trace, "p "+Render(id))
		return id, ok0
	case "pfail":
		m.out.Trace = append(m.out.Trace, "pfail "+Render(args[0]))
		return nil, errc("pfail", true)
	case "pd":
		parts := make([]string, len(args))
		for i, a := range args {
			parts[i] = Render(a)
		}
		m.out.Trace = append(m.out.Trace, "pd "+strings.Join(parts, " "))
		if m.inDeferred > 0 {
			m.feat("deferred_probe_of_its_arguments_run")
		}
		return nil, ok0
	case "gset":
		// reached by a deferred gset(&name, v) only (ordinary calls go through callHost): the Go function
		// runs, yields nothing and logs nothing
		m.feat("deferred_go_call_with_address_argument_run")
		return nil, ok0
	}
	if m.depth > 60 {
		m.unspec("model recursion depth")
	}
	mark := len(m.live)
	fs := m.newScope("call", fn.Env)
	if fn.VarArg {
		n := len(fn.Params)
		if len(args) < n-1 {
			return nil, errc("function wants N arguments", false)
		}
		for i := 0; i < n-1; i++ {
			m.defineVar(fs, fn.Params[i], args[i])
		}
		fs.define(fn.Params[n-1], &List{E: append([]interface{}{}, args[n-1:]...)})
	} else {
		if len(args) != len(fn.Params) {
			return nil, errc("function wants N arguments", false)
		}
		for i, p := range fn.Params {
			m.defineVar(fs, p, args[i])
		}
	}
	m.inv = append(m.inv, &invocation{})
	m.depth++
	c := m.block(fn.Body, fs)
	m.depth--
	c = m.runDefers(c)
	m.endScopes(mark, c)
	switch c.s {
	case sRet:
		return c.val, ok0
	case sErr:
		return nil, c
	case sBreak, sCont:
		return nil, errc("unexpected break/continue", false)
	}
	m.unspec("function body ended without return (value of the last statement is not specified)")
	return nil, ok0
}

func (m *Model) callValue(fv interface{}, argExprs []*N, spread bool, sc *Scope) (interface{}, ctl) {
	fn, ok := fv.(*Func)
	if !ok {
		return nil, errc("cannot call type", false)
	}
	if fn.Host == "" && !fn.VarArg && len(fn.Params) == 0 && len(argExprs) > 0 {
		// anko ignores (and does not evaluate) arguments given to a parameterless function;
		// no statement covers this
		m.unspec("arguments passed to a parameterless function")
	}
	if fn.Host == "" && !spread {
		// a call rejected for its argument count evaluates no operand
		if (!fn.VarArg && len(argExprs) != len(fn.Params)) || (fn.VarArg && len(argExprs) < len(fn.Params)-1) {
			m.feat("arity_error")
			return nil, errc("function wants N arguments", false)
		}
	}
	if fn.HP != nil {
		return m.callHost(fn, argExprs, spread, sc)
	}
	args := make([]interface{}, 0, len(argExprs))
	for _, a := range argExprs {
		v, c := m.eval(a, sc)
		if c.s != sNone {
			return nil, c
		}
		args = append(args, v)
	}
	if spread {
		if len(args) == 0 {
			return nil, errc("spread without argument", false)
		}
		l, ok := args[len(args)-1].(*List)
		if !ok {
			return nil, errc("call is variadic but last parameter is not a list", false)
		}
		args = append(args[:len(args)-1], l.E...)
		if fn.Host == "" && !fn.VarArg && len(args) < len(fn.Params) {
			return nil, errc("function wants N arguments", false)
		}
		if fn.Host == "" && !fn.VarArg && len(args) > len(fn.Params) {
			// anko passes the first parameters and drops the rest of the spread list
			m.unspec("spread list longer than the parameter list")
		}
	}
	return m.apply(fn, args)
}

// callHost models a call of a typed Go function: wrong counts are rejected before any
// operand is evaluated; each operand is evaluated and then converted for its parameter,
// a failing conversion ends the evaluation of the operands after it.
func (m *Model) callHost(fn *Func, argExprs []*N, spread bool, sc *Scope) (interface{}, ctl) {
	n := len(fn.HP)
	ne := len(argExprs)
	switch {
	case !fn.HV && !spread && ne != n,
		fn.HV && !spread && ne < n-1,
		!fn.HV && spread && (ne > n || ne < 1):
		m.feat("arity_error")
		return nil, errc("function wants N arguments", false)
	case fn.HV && spread && ne != n:
		m.unspec("spread call of a variadic function whose list is not in the variadic position")
	}
	if fn.Host == "gset" {
		return m.callGset(argExprs, spread, sc)
	}
	typeOf := func(i int) string {
		if fn.HV && i >= n-1 {
			return fn.HP[n-1]
		}
		return fn.HP[i]
	}
	var got []interface{}
	for i, a := range argExprs {
		v, c := m.eval(a, sc)
		if c.s != sNone {
			return nil, c
		}
		if spread && i == ne-1 {
			l, ok := v.(*List)
			if !ok {
				return nil, errc("call is variadic but last parameter is not a list", false)
			}
			if !fn.HV {
				if len(l.E) < n-i {
					return nil, errc("function wants N arguments", false)
				}
				if len(l.E) > n-i {
					m.unspec("spread list longer than the parameter list")
				}
			}
			for j, e := range l.E {
				cv, ok := hostConv(e, typeOf(i+j))
				if !ok {
					m.feat("conversion_error")
					return nil, errc("function wants argument type", false)
				}
				got = append(got, cv)
			}
			break
		}
		cv, ok := hostConv(v, typeOf(i))
		if !ok {
			m.feat("conversion_error")
			return nil, errc("function wants argument type", false)
		}
		got = append(got, cv)
	}
	m.step()
	switch fn.Host {
	case "gcall0", "geach":
		cb := got[len(got)-1].(*Func)
		var items []interface{}
		if fn.Host == "geach" {
			l, ok := got[0].(*List)
			if !ok {
				m.unspec("geach over %T", got[0])
			}
			items = l.E
		} else {
			items = []interface{}{nil}
		}
		for _, it := range items {
			var args []interface{}
			if fn.Host == "geach" {
				args = []interface{}{it}
			}
			if cb.VarArg || len(cb.Params) != len(args) {
				m.unspec("callback with a parameter list other than the Go func type's")
			}
			m.feat("script_callback_called_by_go")
			_, c := m.apply(cb, args)
			if c.s == sErr {
				// the error crosses the Go function: its text is not specified
				m.feat("error_through_go_callback")
				return nil, errc("error raised by a script callback", false)
			}
			if c.s != sNone {
				m.unspec("callback left by %v", c.s)
			}
		}
		return nil, ok0
	}
	if convReturnsValue(fn) { // host_conv.go: a callee with one fixed parameter hands back the value itself
		return got[0], ok0
	}
	return &List{E: got}, ok0
}

// callGset models gset(&name, v), a Go func(p *int64, v int64) { *p = v } called with the address of
// a variable that holds an int: afterwards the name has the value v - an assignment to the name, so
// it goes to the nearest existing binding - or, under Cfg.AddrNoWriteBack, nothing happened to it.
func (m *Model) callGset(argExprs []*N, spread bool, sc *Scope) (interface{}, ctl) {
	if spread || len(argExprs) != 2 || argExprs[0].K != "addr" || argExprs[0].Ns[0].K != "id" {
		m.unspec("gset called with something else than (&name, value)")
	}
	cur, c := m.eval(argExprs[0], sc)
	if c.s != sNone {
		return nil, c
	}
	if _, ok := cur.(int64); !ok {
		m.unspec("gset on a variable that does not hold an int")
	}
	v, c := m.eval(argExprs[1], sc)
	if c.s != sNone {
		return nil, c
	}
	if _, ok := v.(int64); !ok {
		m.unspec("gset of a value that is not an int")
	}
	m.step()
	m.feat("go_function_wrote_through_address_of_name")
	if !m.cfg.AddrNoWriteBack {
		m.assign(sc, argExprs[0].Ns[0].S, v)
	}
	return nil, ok0
}

func (m *Model) eval(e *N, sc *Scope) (interface{}, ctl) {
	m.step()
	switch e.K {
	case "nil":
		return nil, ok0
	case "true":
		return true, ok0
	case "false":
		return false, ok0
	case "int":
		return e.I, ok0
	case "flt":
		return math.Float64frombits(uint64(e.I)), ok0
	case "str":
		return e.S, ok0
	case "id":
		v, _, ok := sc.lookup(e.S)
		if m.dead[e.S] {
			m.feat("read_after_scope_end")
		}
		if !ok {
			m.feat("undefined_name")
			return nil, errc("undefined symbol '"+e.S+"'", false)
		}
		return v, ok0
	case "list":
		l := &List{E: make([]interface{}, 0, len(e.Ns))}
		for _, k := range e.Ns {
			v, c := m.eval(k, sc)
			if c.s != sNone {
				return nil, c
			}
			l.E = append(l.E, v)
		}
		return l, ok0
	case "map", "imap":
		// {k: v, ...} and map{k: v, ...} (imap: the typed literal with interface keys and values)
		mp := &Map{}
		for i := 0; i+1 < len(e.Ns); i += 2 {
			k, c := m.eval(e.Ns[i], sc)
			if c.s != sNone {
				return nil, c
			}
			switch k.(type) {
			case *List, *Map:
				// a list or a map cannot be a map key: the failure belongs to the key operand, the
				// operands after it (its value first) are not evaluated
				m.feat("conversion_error")
				m.feat("unusable_map_key")
				return nil, errc("cannot be used as map key", false)
			}
			v, c := m.eval(e.Ns[i+1], sc)
			if c.s != sNone {
				return nil, c
			}
			mp.set(k, v)
		}
		return mp, ok0
	case "tlist":
		// typed slice literal []T{...}: S is the element type
		l := &List{E: make([]interface{}, 0, len(e.Ns))}
		for _, k := range e.Ns {
			v, c := m.eval(k, sc)
			if c.s != sNone {
				return nil, c
			}
			cv, ok := hostConv(v, e.S)
			if !ok {
				m.feat("conversion_error")
				return nil, errc("cannot use type as slice value", false)
			}
			l.E = append(l.E, cv)
		}
		return l, ok0
	case "tmap":
		// typed map literal map[string]T{...}: S is the value type, keys are strings
		mp := &Map{}
		for i := 0; i+1 < len(e.Ns); i += 2 {
			k, c := m.eval(e.Ns[i], sc)
			if c.s != sNone {
				return nil, c
			}
			ck, ok := hostConv(k, "string")
			if !ok {
				m.feat("conversion_error")
				m.feat("unusable_map_key")
				return nil, errc("cannot use type as map key", false)
			}
			v, c := m.eval(e.Ns[i+1], sc)
			if c.s != sNone {
				return nil, c
			}
			cv, ok := hostConv(v, e.S)
			if !ok {
				m.feat("conversion_error")
				return nil, errc("cannot use type as map value", false)
			}
			mp.set(ck, cv)
		}
		return mp, ok0
	case "addr":
		// &e: evaluates e once; the pointer itself is transparent to the probes (gderef)
		m.feat("address_of")
		return m.eval(e.Ns[0], sc)
	case "deref":
		// *name: the pointee, which the model holds under the pointer's name (see letderef)
		if e.Ns[0].K != "id" {
			m.unspec("dereference of something that is not a plain name")
		}
		return m.eval(e.Ns[0], sc)
	case "slice":
		a, c := m.eval(e.Ns[0], sc)
		if c.s != sNone {
			return nil, c
		}
		if _, isArr := a.(*HostArr); isArr {
			// fails before any bound operand is evaluated? Not specified: the generators only use
			// constant bounds here
			for _, b := range e.Ns[1:] {
				if b.K != "none" && b.K != "int" {
					m.unspec("slice of a host array with non-constant bounds")
				}
			}
			m.feat("slice_of_host_array_fails")
			return nil, errc("slice of unaddressable array", false)
		}
		l, ok := a.(*List)
		if !ok {
			m.unspec("slice of %T", a)
		}
		idx := []int64{0, int64(len(l.E)), int64(len(l.E))}
		for i := 1; i < len(e.Ns); i++ {
			if e.Ns[i].K == "none" {
				continue
			}
			v, c := m.eval(e.Ns[i], sc)
			if c.s != sNone {
				return nil, c
			}
			iv, ok := v.(int64)
			if !ok {
				m.unspec("slice index of %T", v)
			}
			idx[i-1] = iv
		}
		if idx[0] < 0 || idx[1] > int64(len(l.E)) || idx[0] > idx[1] || (len(e.Ns) > 3 && (idx[2] < idx[1] || idx[2] > int64(len(l.E)))) {
			m.unspec("slice bounds outside the always-valid range used by the generators")
		}
		return &List{E: append([]interface{}{}, l.E[idx[0]:idx[1]]...)}, ok0
	case "bin":
		a, c := m.eval(e.Ns[0], sc)
		if c.s != sNone {
			return nil, c
		}
		b, c := m.eval(e.Ns[1], sc)
		if c.s != sNone {
			return nil, c
		}
		return m.binop(e.S, a, b), ok0
	case "not":
		a, c := m.eval(e.Ns[0], sc)
		if c.s != sNone {
			return nil, c
		}
		return !m.truthy(a), ok0
	case "recv":
		// the channel holds exactly the operand's value
		m.feat("receive_expression")
		return m.eval(e.Ns[0], sc)
	case "neg", "negb":
		a, c := m.eval(e.Ns[0], sc)
		if c.s != sNone {
			return nil, c
		}
		i, ok := a.(int64)
		if !ok {
			m.unspec("unary minus of %T", a)
		}
		return -i, ok0
	case "and", "or":
		a, c := m.eval(e.Ns[0], sc)
		if c.s != sNone {
			return nil, c
		}
		ta := m.truthy(a)
		if (e.K == "and" && !ta) || (e.K == "or" && ta) {
			m.feat("short_circuit")
			return ta, ok0
		}
		b, c := m.eval(e.Ns[1], sc)
		if c.s != sNone {
			return nil, c
		}
		return m.truthy(b), ok0
	case "chain":
		// a && b && c ... / a || b || c ... written without inner parentheses (S is the operator): the
		// grammar nests it to the left, ((a && b) && c): operands run left to right until one decides
		// the result, the ones after it never run
		and := e.S == "&&"
		if (!and && e.S != "||") || len(e.Ns) < 2 {
			m.unspec("model: malformed operator chain")
		}
		for i, k := range e.Ns {
			a, c := m.eval(k, sc)
			if c.s != sNone {
				return nil, c
			}
			if ta := m.truthy(a); ta != and {
				if i < len(e.Ns)-1 {
					m.feat("short_circuit")
					m.feat("chain_decided_before_its_end")
				}
				return ta, ok0
			}
		}
		return and, ok0
	case "tern":
		a, c := m.eval(e.Ns[0], sc)
		if c.s != sNone {
			return nil, c
		}
		if m.truthy(a) {
			return m.eval(e.Ns[1], sc)
		}
		return m.eval(e.Ns[2], sc)
	case "coal":
		a, c := m.eval(e.Ns[0], sc)
		if c.s == sErr {
			m.feat("coalesce_swallowed_error")
			return m.eval(e.Ns[1], sc)
		}
		if c.s != sNone {
			return nil, c
		}
		if e.Ns[0].K == "addr" {
			// the address of something is a pointer that is never nil, whatever it points to
			m.feat("coalesce_left_is_address_of")
			return a, ok0
		}
		if a == nil {
			return m.eval(e.Ns[1], sc)
		}
		if _, isTN := a.(*TypedNil); isTN {
			return m.eval(e.Ns[1], sc)
		}
		switch t := a.(type) {
		case *List, *Map, *Func:
			_ = t // non-nil reference values
		}
		return a, ok0
	case "call":
		fv, _, ok := sc.lookup(e.S)
		if !ok {
			m.feat("undefined_name")
			return nil, errc("undefined symbol '"+e.S+"'", false)
		}
		return m.callValue(fv, e.Ns, e.B, sc)
	case "acall":
		fv, c := m.eval(e.Ns[0], sc)
		if c.s != sNone {
			return nil, c
		}
		return m.callValue(fv, e.Ns[1:], e.B, sc)
	case "p":
		args := []interface{}{e.I}
		for _, k := range e.Ns {
			v, c := m.eval(k, sc)
			if c.s != sNone {
				return nil, c
			}
			args = append(args, v)
		}
		return m.apply(&Func{Host: "p"}, args)
	case "pfail":
		return m.apply(&Func{Host: "pfail"}, []interface{}{e.I})
	case "fn":
		f := &Func{Name: e.S, Params: e.Ps, VarArg: e.B, Body: e.Ss[0], Env: sc}
		if e.S != "" {
			sc.define(e.S, f)
		}
		m.feat("closure_created")
		return f, ok0
	case "idx":
		a, c := m.eval(e.Ns[0], sc)
		if c.s != sNone {
			return nil, c
		}
		switch a.(type) {
		case nil, bool, int64, float64:
			// a value that has no index operation: whether the index operand still runs before the
			// operation fails is not specified (the generators use constant indexes here)
			if k := e.Ns[1].K; k != "int" && k != "str" {
				m.unspec("index of a value without index operation with a non-constant index")
			}
		}
		i, c := m.eval(e.Ns[1], sc)
		if c.s != sNone {
			return nil, c
		}
		switch t := a.(type) {
		case *List:
			ix, ok := i.(int64)
			if !ok {
				m.unspec("list index of %T", i)
			}
			if ix < 0 || ix >= int64(len(t.E)) {
				m.feat("index_out_of_range")
				return nil, errc("index out of range", false)
			}
			return t.E[ix], ok0
		case *Map:
			v, _ := t.get(i)
			return v, ok0
		case *HostArr:
			ix, ok := i.(int64)
			if !ok || ix < 0 || ix >= int64(len(t.E)) {
				m.unspec("host array index %v", i)
			}
			return t.E[ix], ok0
		case string:
			// a string (ASCII only in the generators) indexed by an integer: the one-character string
			ix, ok := i.(int64)
			if !ok {
				m.unspec("string index of %T", i)
			}
			for k := 0; k < len(t); k++ {
				if t[k] >= 0x80 {
					m.unspec("index of a string with non-ASCII bytes")
				}
			}
			if ix < 0 || ix >= int64(len(t)) {
				m.feat("index_out_of_range")
				return nil, errc("index out of range", false)
			}
			m.feat("index_of_string")
			return string(t[ix]), ok0
		case nil, bool, int64, float64:
			// a value that has no index operation: the operation fails
			m.feat("index_of_unindexable_value")
			return nil, errc("does not support index operation", false)
		}
		m.unspec("index of %T", a)
	case "mem":
		a, c := m.eval(e.Ns[0], sc)
		if c.s != sNone {
			return nil, c
		}
		switch t := a.(type) {
		case *Module:
			if v, ok := t.Env.vars[e.S]; ok {
				return v, ok0
			}
			if _, _, ok := t.Env.lookup(e.S); ok {
				m.unspec("module member resolved outside the module")
			}
			return nil, errc("undefined symbol '"+e.S+"'", false)
		case *Map:
			v, _ := t.get(e.S)
			return v, ok0
		}
		m.unspec("member of %T", a)
	case "rterr":
		// an operation that cannot yield a value (Go itself panics on it, or no value of that size
		// can exist): a runtime error, raised at this point
		m.feat("runtime_error_inside_interpreter")
		if len(e.Ps) > 0 {
			m.feat("runtime_error_" + e.Ps[0])
		}
		return nil, errc("runtime error", false)
	case "mkslice":
		var zero interface{} = int64(0)
		if e.S == "string" {
			zero = ""
		}
		if strings.HasPrefix(e.S, "[]") || strings.HasPrefix(e.S, "map[") {
			// a slice of slices / of maps: every element is a nil slice / map of that type
			zero = &TypedNil{T: e.S}
		}
		l := &List{}
		for i := int64(0); i < e.I; i++ {
			l.E = append(l.E, zero)
		}
		return l, ok0
	case "len":
		a, c := m.eval(e.Ns[0], sc)
		if c.s != sNone {
			return nil, c
		}
		switch t := a.(type) {
		case *List:
			return int64(len(t.E)), ok0
		case *Map:
			return int64(len(t.K)), ok0
		case string:
			return int64(len(t)), ok0
		}
		return nil, errc("does not support len operation", false)
	case "in":
		a, c := m.eval(e.Ns[0], sc)
		if c.s != sNone {
			return nil, c
		}
		b, c := m.eval(e.Ns[1], sc)
		if c.s != sNone {
			return nil, c
		}
		l, ok := b.(*List)
		if !ok {
			return nil, errc("second argument must be slice", false)
		}
		for _, x := range l.E {
			if m.equal(a, x) {
				return true, ok0
			}
		}
		return false, ok0
	case "inc":
		v, _, ok := sc.lookup(e.S)
		if !ok {
			return nil, errc("undefined symbol", false)
		}
		i, isInt := v.(int64)
		if !isInt {
			m.unspec("++ on %T", v)
		}
		nv := i + e.I
		m.assign(sc, e.S, nv)
		return nv, ok0
	case "opas":
		v, _, ok := sc.lookup(e.S)
		if !ok {
			return nil, errc("undefined symbol", false)
		}
		r, c := m.eval(e.Ns[0], sc)
		if c.s != sNone {
			return nil, c
		}
		nv := m.binop(e.Ps[0], v, r)
		m.assign(sc, e.S, nv)
		return nv, ok0
	}
	m.unspec("model: unknown expression kind %s", e.K)
	return nil, ok0
}

func (m *Model) binop(op string, a, b interface{}) interface{} {
	ai, aInt := a.(int64)
	bi, bInt := b.(int64)
	as, aStr := a.(string)
	bs, bStr := b.(string)
	switch op {
	case "+":
		switch {
		case aInt && bInt:
			return ai + bi
		case aStr && bStr:
			return as + bs
		case aStr && bInt:
			return as + strconv.FormatInt(bi, 10)
		case aInt && bStr:
			return strconv.FormatInt(ai, 10) + bs
		}
	case "-":
		if aInt && bInt {
			return ai - bi
		}
	case "*":
		if aInt && bInt {
			return ai * bi
		}
	case "%":
		if aInt && bInt && bi != 0 {
			return ai % bi
		}
	case "&":
		if aInt && bInt {
			return ai & bi
		}
	case "|":
		if aInt && bInt {
			return ai | bi
		}
	case "<<":
		if aInt && bInt {
			return ai << uint64(bi)
		}
	case ">>":
		if aInt && bInt {
			return ai >> uint64(bi)
		}
	case "/":
		if aInt && bInt {
			return float64(ai) / float64(bi)
		}
	case "<", "<=", ">", ">=":
		if aInt && bInt {
			switch op {
			case "<":
				return ai < bi
			case "<=":
				return ai <= bi
			case ">":
				return ai > bi
			default:
				return ai >= bi
			}
		}
	case "==":
		if eq, ok := m.equalOK(a, b); ok {
			return eq
		}
	case "!=":
		if eq, ok := m.equalOK(a, b); ok {
			return !eq
		}
	}
	m.unspec("operator %s on %T and %T", op, a, b)
	return nil
}

// equalOK implements equality only where C06 fixes it for the values the
// generators use: same primitive type, or nil against anything.
func (m *Model) equalOK(a, b interface{}) (bool, bool) {
	if _, ok := a.(*TypedNil); ok {
		a = nil
	}
	if _, ok := b.(*TypedNil); ok {
		b = nil
	}
	if a == nil || b == nil {
		return a == nil && b == nil, true
	}
	switch x := a.(type) {
	case int64:
		if y, ok := b.(int64); ok {
			return x == y, true
		}
		if y, ok := b.(float64); ok {
			// an integer and a float are equal when <= and >= hold between them (as float64)
			return float64(x) == y, true
		}
	case float64:
		if y, ok := b.(float64); ok {
			return x == y, true
		}
		if y, ok := b.(int64); ok {
			return x == float64(y), true
		}
	case string:
		if y, ok := b.(string); ok {
			return x == y, true
		}
	case bool:
		if y, ok := b.(bool); ok {
			return x == y, true
		}
	}
	// a string and a number, where the spelling of the string leaves no room (model_switchagain.go)
	return strNumEqual(a, b)
}

func (m *Model) equal(a, b interface{}) bool {
	eq, ok := m.equalOK(a, b)
	if !ok {
		m.unspec("equality of %T and %T", a, b)
	}
	return eq
}

// truthy implements the truthiness classes named by C08.
func (m *Model) truthy(v interface{}) bool {
	switch t := v.(type) {
	case nil, *TypedNil:
		return false
	case bool:
		return t
	case int64:
		return t != 0
	case float64:
		return t != 0
	case string:
		if t == "" {
			return false
		}
		// strings that look like false/zero are unspecified (C08 design)
		if _, err := strconv.ParseBool(t); err == nil {
			m.unspec("truthiness of bool-like string")
		}
		if _, err := strconv.ParseFloat(t, 64); err == nil {
			m.unspec("truthiness of numeric string")
		}
		return true
	case *List:
		return len(t.E) > 0
	case *Map:
		return len(t.K) > 0
	}
	m.unspec("truthiness of %T", v)
	return false
}

// ---------- maps ----------

func (mp *Map) get(k interface{}) (interface{}, bool) {
	for i, kk := range mp.K {
		if kk == k {
			return mp.V[i], true
		}
	}
	return nil, false
}

func (mp *Map) set(k, v interface{}) {
	switch k.(type) {
	case int64, string, bool, nil:
	default:
		panic(unspecified{fmt.Sprintf("map key of %T", k)})
	}
	for i, kk := range mp.K {
		if kk == k {
			mp.V[i] = v
			return
		}
	}
	mp.K = append(mp.K, k)
	mp.V = append(mp.V, v)
}

func (mp *Map) sorted() ([]interface{}, []interface{}) {
	idx := make([]int, len(mp.K))
	for i := range idx {
		idx[i] = i
	}
	sort.Slice(idx, func(a, b int) bool { return Render(mp.K[idx[a]]) < Render(mp.K[idx[b]]) })
	ks := make([]interface{}, len(idx))
	vs := make([]interface{}, len(idx))
	for i, j := range idx {
		ks[i], vs[i] = mp.K[j], mp.V[j]
	}
	return ks, vs
}

// ---------- rendering (shared with the anko-side probe) ----------

// Render renders a model value; the anko-side probe renders Go values in the same format.
func Render(v interface{}) string {
	switch t := v.(type) {
	case nil:
		return "nil"
	case *TypedNil:
		return "nil:" + t.T
	case bool:
		return "b:" + strconv.FormatBool(t)
	case int64:
		return "i:" + strconv.FormatInt(t, 10)
	case float64:
		return "f:" + strconv.FormatFloat(t, 'g', -1, 64)
	case string:
		return "s:" + strconv.Quote(t)
	case *List:
		parts := make([]string, len(t.E))
		for i, e := range t.E {
			parts[i] = Render(e)
		}
		return "[" + strings.Join(parts, ",") + "]"
	case *Map:
		parts := make([]string, len(t.K))
		for i := range t.K {
			parts[i] = Render(t.K[i]) + "=" + Render(t.V[i])
		}
		sort.Strings(parts)
		return "{" + strings.Join(parts, ",") + "}"
	case *Func:
		return "fn"
	case *ErrV:
		if t.Known {
			return "err:" + strconv.Quote(t.Msg)
		}
		return "err:?"
	case *Module:
		return "module"
	}
	return fmt.Sprintf("?%T", v)
}

// goSprint mimics fmt.Sprint on the Go value anko would hold for v.
func goSprint(v interface{}) string {
	switch t := v.(type) {
	case nil:
		return "<nil>"
	case bool, int64, float64, string:
		return fmt.Sprint(t)
	case *List:
		parts := make([]string, len(t.E))
		for i, e := range t.E {
			parts[i] = goSprint(e)
		}
		return "[" + strings.Join(parts, " ") + "]"
	}
	panic(unspecified{fmt.Sprintf("fmt.Sprint of %T", v)})
}
