package prog

import (
	"fmt"
	"strings"
)

// Patterns of the profile flag ErrFlow (C09, eighth round). A profile without the flag draws exactly
// what it drew before.
//
// (a) catchVarNested: while a catch block is running (its variable holds the error its try caught),
//     a second try that is lexically inside that block - directly, in a branch, in a loop, in a closure
//     called at once, in a function defined in the block, in deferred closures, three levels deep -
//     catches another error under the SAME variable name; afterwards the outer block reads its variable
//     again (and may rethrow it): "its catch block then runs with the error bound to the catch variable".
// (b) loopHeaderRaises: an expression of a loop HEADER (the post expression of a C-style for, the
//     condition of a C-style for, the condition of `for cond { }`) raises after a round that ended in a
//     chosen way (ran to its end, `continue` as the last statement, `continue` in a branch / else / switch
//     case / catch block): the loop is left, nothing after the failing point runs, the error reaches the
//     nearest try or ends the invocations.
//
// Every read that matters is logged through pd under a tag naming the pattern and its form, so that a
// failure can be told from an ordinary trace difference (ErrFlowDiff).

// efRaise returns a statement that raises an error; pre collects the function definitions it needs.
// Most raisers have a text the model knows (so that two errors can be told apart in a probe).
func (g *G) efRaise(pre *[]*N, what string) *N {
	switch g.n(0, 9, "efraise") {
	case 0, 1, 2, 3:
		g.feat(what + "_throw_of_a_string")
		return &N{K: "throw", Ns: []*N{Str(fmt.Sprintf("E%d", g.id()))}}
	case 4:
		g.feat(what + "_throw_of_a_number")
		return &N{K: "throw", Ns: []*N{g.val()}}
	case 5:
		g.feat(what + "_host_panic")
		return &N{K: "expr", Ns: []*N{{K: "pfail", I: g.id()}}}
	case 6, 7:
		// a called function that probes, throws and has a deferred probe of its own
		g.feat(what + "_throw_in_called_function")
		g.nextFn++
		th := fmt.Sprintf("eth%d", g.nextFn)
		*pre = append(*pre, &N{K: "expr", Ns: []*N{{K: "fn", S: th, Ss: [][]*N{{
			{K: "defer", Ns: []*N{P(g.id())}},
			{K: "expr", Ns: []*N{P(g.id())}},
			{K: "throw", Ns: []*N{Str(fmt.Sprintf("T%d", g.id()))}},
		}}}}})
		return &N{K: "expr", Ns: []*N{Call(th)}}
	case 8:
		g.feat(what + "_undefined_name")
		return &N{K: "expr", Ns: []*N{P1(g.id(), Id("zz"))}}
	default:
		g.feat(what + "_runtime_error_inside_interpreter")
		return &N{K: "expr", Ns: []*N{g.rterr()}}
	}
}

func pdStmt(tag string, args ...*N) *N {
	return &N{K: "expr", Ns: []*N{Call("pd", append([]*N{Str(tag)}, args...)...)}}
}

var efCatchNames = []string{"e", "e2", "err"}

// catchVarNested: see the head of the file.
func (g *G) catchVarNested(c *gctx) []*N {
	g.feat("catch_variable_read_after_a_nested_try")
	ni := g.n(0, 2, "cvname")
	outerV := efCatchNames[ni]
	innerV := outerV
	if !g.chance(80) {
		// comparison class: the nested try names its variable differently
		innerV = efCatchNames[(ni+1)%3]
		g.feat("cv_nested_try_binds_another_name")
	} else {
		g.feat("cv_nested_try_binds_the_same_name")
	}
	forms := []string{"directly", "directly", "in_a_branch", "in_a_loop_twice", "in_a_closure_called_at_once", "in_a_function_defined_in_the_catch_block", "in_a_function_defined_before_the_try", "three_levels", "in_deferred_closures"}
	form := forms[g.n(0, len(forms)-1, "cvform")]
	g.feat("cv_nested_try_" + form)
	tagID := g.id()
	tag := func(role string) string { return fmt.Sprintf("cv:%s#%d:%s", form, tagID, role) }

	var pre []*N
	quiet := !g.chance(85)
	if quiet {
		// comparison class: the nested try raises nothing, its catch block does not run
		g.feat("cv_nested_try_raises_nothing")
	}
	var mkInner func(levels int) *N
	mkInner = func(levels int) *N {
		t := &N{K: "try", S: innerV}
		var body []*N
		if g.chance(40) {
			body = append(body, &N{K: "expr", Ns: []*N{P(g.id())}})
		}
		if !quiet {
			body = append(body, g.efRaise(&pre, "cv_inner_error"), &N{K: "expr", Ns: []*N{P(g.id())}})
		}
		cb := []*N{pdStmt(tag("inner"), Id(innerV))}
		if levels > 1 {
			cb = append(cb, mkInner(levels-1), pdStmt(tag("inner_after"), Id(innerV)))
		}
		t.Ss = [][]*N{body, cb}
		if g.chance(25) {
			t.B = true
			t.Ss = append(t.Ss, []*N{{K: "expr", Ns: []*N{P(g.id())}}})
		}
		return t
	}

	catchBody := []*N{pdStmt(tag("before"), Id(outerV))}
	after := pdStmt(tag("after"), Id(outerV))
	closure := func(body ...*N) *N {
		return &N{K: "acall", Ns: []*N{{K: "fn", Ss: [][]*N{append(body, &N{K: "ret"})}}}}
	}
	switch form {
	case "directly":
		catchBody = append(catchBody, mkInner(1), after)
	case "three_levels":
		catchBody = append(catchBody, mkInner(2), after)
	case "in_a_branch":
		br := &N{K: "if", Ns: []*N{{K: "true"}}, Ss: [][]*N{{mkInner(1)}}}
		if g.chance(50) {
			br = &N{K: "if", Ns: []*N{{K: "false"}}, Ss: [][]*N{{}, {mkInner(1)}}, B: true}
		}
		catchBody = append(catchBody, br, after)
	case "in_a_loop_twice":
		catchBody = append(catchBody, &N{K: "forin", Ps: []string{"cvi"}, Ns: []*N{{K: "list", Ns: []*N{g.val(), g.val()}}}, Ss: [][]*N{{mkInner(1), pdStmt(tag("after_in_loop"), Id(outerV))}}}, after)
	case "in_a_closure_called_at_once":
		catchBody = append(catchBody, &N{K: "expr", Ns: []*N{closure(mkInner(1))}}, after)
	case "in_a_function_defined_in_the_catch_block":
		g.nextFn++
		ih := fmt.Sprintf("cvf%d", g.nextFn)
		catchBody = append(catchBody,
			&N{K: "expr", Ns: []*N{{K: "fn", S: ih, Ss: [][]*N{{mkInner(1), {K: "ret", Ns: []*N{Int(0)}}}}}}},
			&N{K: "expr", Ns: []*N{Call(ih)}}, after)
		if g.chance(40) {
			catchBody = append(catchBody, &N{K: "expr", Ns: []*N{Call(ih)}}, pdStmt(tag("after_second_call"), Id(outerV)))
		}
	case "in_a_function_defined_before_the_try":
		// comparison class: the function's scope chain does not pass through the catch block
		g.nextFn++
		ih := fmt.Sprintf("cvf%d", g.nextFn)
		inner := mkInner(1)
		pre = append(pre, &N{K: "expr", Ns: []*N{{K: "fn", S: ih, Ss: [][]*N{{inner, {K: "ret", Ns: []*N{Int(0)}}}}}}})
		catchBody = append(catchBody, &N{K: "expr", Ns: []*N{Call(ih)}}, after)
	default: // in_deferred_closures
		// registered first, so it runs last: reads the variable after the deferred nested try has run
		catchBody = append(catchBody,
			&N{K: "defer", Ns: []*N{closure(pdStmt(tag("after_deferred"), Id(outerV)))}},
			&N{K: "defer", Ns: []*N{closure(mkInner(1))}},
			after)
	}
	rethrow := g.chance(40)
	if rethrow {
		// the error that is not caught is the one this catch block was given
		g.feat("cv_rethrow_of_the_catch_variable")
		catchBody = append(catchBody, &N{K: "throw", Ns: []*N{Id(outerV)}}, &N{K: "expr", Ns: []*N{P(g.id())}})
	}
	var tryBody []*N
	if g.chance(40) {
		tryBody = append(tryBody, &N{K: "expr", Ns: []*N{P(g.id())}})
	}
	tryBody = append(tryBody, g.efRaise(&pre, "cv_outer_error"), &N{K: "expr", Ns: []*N{P(g.id())}})
	outer := &N{K: "try", S: outerV, Ss: [][]*N{tryBody, catchBody}}
	if g.chance(30) {
		outer.B = true
		outer.Ss = append(outer.Ss, []*N{{K: "expr", Ns: []*N{P(g.id())}}})
	}
	if !rethrow {
		return append(pre, outer)
	}
	if g.chance(65) {
		return append(pre, &N{K: "try", S: "eo", Ss: [][]*N{{outer, {K: "expr", Ns: []*N{P(g.id())}}}, {pdStmt(tag("rethrown"), Id("eo"))}}})
	}
	g.feat("cv_rethrow_uncaught")
	return append(pre, g.guarded(c, outer))
}

// loopHeaderRaises: see the head of the file.
func (g *G) loopHeaderRaises(c *gctx) []*N {
	g.feat("loop_header_expression_raises")
	site := []string{"cfor_post", "cfor_post", "cfor_post", "cfor_post", "cfor_condition", "loop_condition"}[g.n(0, 5, "hxsite")]
	bound := int64(g.n(2, 4, "hxbound"))
	// the header expression fails after round r (rounds count from 1)
	r := int64(g.n(1, int(bound), "hxround"))
	if site != "cfor_post" && r > bound-1 {
		r = bound - 1
	}
	endings := []string{"ran_to_its_end", "continue_last_statement", "continue_in_a_branch", "continue_in_a_branch", "continue_in_a_branch_of_another_round", "continue_in_else", "continue_in_a_switch_case", "continue_in_a_catch_block"}
	ending := endings[g.n(0, len(endings)-1, "hxending")]
	g.feat("hx_site_" + site)
	g.feat("hx_round_" + ending)
	class := site + "/" + ending
	tagID := g.id()
	tag := func(role string) string { return fmt.Sprintf("hx:%s#%d:%s", class, tagID, role) }

	k := g.ctr()
	var pre []*N
	var setup []*N // statements in front of the loop
	// the failing header expression
	var hdr *N
	exprForms := 5
	if site != "cfor_post" {
		exprForms = 2 // a condition has to yield true when it does not fail
	}
	switch g.n(0, exprForms, "hxexpr") {
	case 0, 1, 3:
		// a step function that fails at its n-th call, after it has advanced its own counter: it does
		// not fail for ever
		g.feat("hx_expression_step_function_failing_once")
		g.nextFn++
		st, cnt := fmt.Sprintf("hst%d", g.nextFn), fmt.Sprintf("hn%d", g.nextFn)
		failAt := r
		if site != "cfor_post" {
			failAt = r + 1 // the condition is evaluated once before the first round
		}
		var raisePre []*N
		raise := g.efRaise(&raisePre, "hx_error")
		pre = append(pre, raisePre...)
		setup = append(setup,
			&N{K: "var", Ps: []string{cnt}, Ns: []*N{Int(0)}},
			&N{K: "expr", Ns: []*N{{K: "fn", S: st, Ss: [][]*N{{
				{K: "let", Ps: []string{cnt}, Ns: []*N{Bin("+", Id(cnt), Int(1))}},
				{K: "if", Ns: []*N{Bin("==", Id(cnt), Int(failAt))}, Ss: [][]*N{{raise}}},
				{K: "ret", Ns: []*N{{K: "true"}}},
			}}}}})
		hdr = Call(st)
		if site == "cfor_post" && g.chance(30) {
			// inside a probe: the probe must not run when its operand failed
			hdr = P1(g.id(), Call(st))
		}
	case 2:
		// fails while the counter has the value of round r (the body advances the counter)
		var raiser *N
		switch g.n(0, 3, "hxtern") {
		case 0:
			g.feat("hx_expression_conditional_host_panic")
			raiser = &N{K: "pfail", I: g.id()}
		case 1:
			g.feat("hx_expression_conditional_undefined_name")
			raiser = Id("zz")
		case 2:
			g.feat("hx_expression_conditional_runtime_error_inside_interpreter")
			raiser = g.rterr()
		default:
			g.feat("hx_expression_conditional_throw_in_called_function")
			g.nextFn++
			th := fmt.Sprintf("eth%d", g.nextFn)
			pre = append(pre, &N{K: "expr", Ns: []*N{{K: "fn", S: th, Ss: [][]*N{{
				{K: "defer", Ns: []*N{P(g.id())}},
				{K: "throw", Ns: []*N{Str(fmt.Sprintf("T%d", g.id()))}},
			}}}}})
			raiser = Call(th)
		}
		hdr = &N{K: "tern", Ns: []*N{Bin("==", Id(k), Int(r)), raiser, {K: "true"}}}
	case 4:
		// index out of range from round r on
		g.feat("hx_expression_index_out_of_range")
		l := &N{K: "list"}
		for i := int64(0); i < r; i++ {
			l.Ns = append(l.Ns, g.val())
		}
		hdr = &N{K: "idx", Ns: []*N{l, Id(k)}}
	default:
		// an increment of a name that is not bound
		g.feat("hx_expression_increment_of_an_unbound_name_in_round_r")
		hdr = &N{K: "tern", Ns: []*N{Bin("==", Id(k), Int(r)), {K: "inc", S: "zzc", I: 1}, Int(0)}}
	}

	// the body: advance the counter (so the loop ends whatever happens to the error), log the round,
	// end the round in the chosen way, log the tail
	body := []*N{
		{K: "let", Ps: []string{k}, Ns: []*N{Bin("+", Id(k), Int(1))}},
		pdStmt(tag("head"), Id(k)),
	}
	if g.chance(30) && c.depth+2 < g.prof.MaxDepth {
		// one ordinary statement of the profile (it may itself break, continue, raise or defer)
		kc := c.sub()
		kc.depth++
		kc.inLoop = true
		kc.canRet = false // the loop may be put into a try block: no return out of it
		g.feat("hx_ordinary_statement_in_the_round")
		body = append(body, g.stmt(kc)...)
		c.keep(kc, g)
	}
	cont := &N{K: "cont"}
	inR := Bin("==", Id(k), Int(r))
	switch ending {
	case "continue_last_statement":
		body = append(body, cont)
	case "continue_in_a_branch":
		body = append(body, &N{K: "if", Ns: []*N{inR}, Ss: [][]*N{{cont}}})
	case "continue_in_a_branch_of_another_round":
		body = append(body, &N{K: "if", Ns: []*N{Bin("!=", Id(k), Int(r))}, Ss: [][]*N{{cont}}})
	case "continue_in_else":
		body = append(body, &N{K: "if", Ns: []*N{Bin("!=", Id(k), Int(r))}, Ss: [][]*N{{{K: "expr", Ns: []*N{P(g.id())}}}, {cont}}, B: true})
	case "continue_in_a_switch_case":
		body = append(body, &N{K: "switch", Ns: []*N{Id(k), {K: "case", Ns: []*N{Int(r)}, Ss: [][]*N{{cont}}}, {K: "default", Ss: [][]*N{{{K: "expr", Ns: []*N{P(g.id())}}}}}}})
	case "continue_in_a_catch_block":
		body = append(body, &N{K: "if", Ns: []*N{inR}, Ss: [][]*N{{{K: "try", Ss: [][]*N{{{K: "throw", Ns: []*N{Str("x")}}}, {cont}}}}}})
	}
	if ending != "continue_last_statement" {
		body = append(body, pdStmt(tag("tail"), Id(k)))
	}

	none := &N{K: "none"}
	cnd := Bin("<", Id(k), Int(bound))
	var loop *N
	switch site {
	case "cfor_post":
		switch g.n(0, 3, "hxhdr") {
		case 0:
			// no condition: left by break (or by the failing post expression)
			g.feat("hx_cfor_without_condition")
			body = append([]*N{{K: "if", Ns: []*N{Bin(">=", Id(k), Int(bound))}, Ss: [][]*N{{{K: "break"}}}}}, body...)
			setup = append(setup, &N{K: "var", Ps: []string{k}, Ns: []*N{Int(0)}})
			loop = &N{K: "cfor", Ns: []*N{none, none, hdr}, Ss: [][]*N{body}}
		case 1:
			g.feat("hx_cfor_init_in_the_header")
			loop = &N{K: "cfor", Ns: []*N{{K: "let", Ps: []string{k}, Ns: []*N{Int(0)}}, cnd, hdr}, Ss: [][]*N{body}}
		default:
			setup = append(setup, &N{K: "var", Ps: []string{k}, Ns: []*N{Int(0)}})
			loop = &N{K: "cfor", Ns: []*N{none, cnd, hdr}, Ss: [][]*N{body}}
		}
	case "cfor_condition":
		setup = append(setup, &N{K: "var", Ps: []string{k}, Ns: []*N{Int(0)}})
		post := none
		if g.chance(50) {
			post = P1(g.id(), Int(0))
		}
		loop = &N{K: "cfor", Ns: []*N{none, {K: "and", Ns: []*N{cnd, hdr}}, post}, Ss: [][]*N{body}}
	default:
		setup = append(setup, &N{K: "var", Ps: []string{k}, Ns: []*N{Int(0)}})
		loop = &N{K: "loop", Ns: []*N{{K: "and", Ns: []*N{cnd, hdr}}}, Ss: [][]*N{body}}
	}
	afterLoop := pdStmt(tag("after"))

	catchB := func() [][]*N { return [][]*N{{pdStmt(tag("caught"), Id("ev"))}} }
	withFinally := func(t *N) *N {
		if g.chance(30) {
			t.B = true
			t.Ss = append(t.Ss, []*N{{K: "expr", Ns: []*N{P(g.id())}}})
		}
		return t
	}
	switch g.n(0, 9, "hxplace") {
	case 0, 1, 2, 3:
		// in line, inside a try
		g.feat("hx_in_line_inside_a_try")
		tb := append(append([]*N{}, setup...), loop, afterLoop)
		return append(pre, withFinally(&N{K: "try", S: "ev", Ss: append([][]*N{tb}, catchB()...)}))
	case 4, 5, 6:
		// in a function with a deferred probe whose result is logged, called inside a try
		g.feat("hx_in_a_function_called_inside_a_try")
		g.nextFn++
		fn := fmt.Sprintf("hxf%d", g.nextFn)
		fb := append([]*N{{K: "defer", Ns: []*N{Call("pd", Str(tag("deferred")))}}}, setup...)
		fb = append(fb, loop, afterLoop, &N{K: "ret", Ns: []*N{g.val()}})
		out := append(pre, &N{K: "expr", Ns: []*N{{K: "fn", S: fn, Ss: [][]*N{fb}}}})
		return append(out, withFinally(&N{K: "try", S: "ev", Ss: append([][]*N{{pdStmt(tag("result"), Call(fn)), {K: "expr", Ns: []*N{P(g.id())}}}}, catchB()...)}))
	case 7, 8:
		// in a function called where nothing catches the error (behind a condition, so that the rest
		// of the program stays reachable on some runs)
		g.feat("hx_in_a_function_called_uncaught")
		g.nextFn++
		fn := fmt.Sprintf("hxf%d", g.nextFn)
		fb := append([]*N{{K: "defer", Ns: []*N{Call("pd", Str(tag("deferred")))}}}, setup...)
		fb = append(fb, loop, afterLoop, &N{K: "ret", Ns: []*N{g.val()}})
		out := append(pre, &N{K: "expr", Ns: []*N{{K: "fn", S: fn, Ss: [][]*N{fb}}}})
		return append(out, g.guarded(c, pdStmt(tag("result"), Call(fn))), &N{K: "expr", Ns: []*N{P(g.id())}})
	default:
		// in line, uncaught, inside a branch
		g.feat("hx_in_line_uncaught")
		blk := append(append([]*N{}, setup...), loop, afterLoop)
		return append(pre, &N{K: "if", Ns: []*N{g.cond(c, 1)}, Ss: [][]*N{blk}})
	}
}

// ErrFlowDiff classifies the first difference between the model's trace and anko's for the patterns of
// this file. It returns
//   - ("catch-variable", form) when both entries come from the SAME read of a catch variable (same tag)
//     and show different errors: the block ran, with another error bound to its variable than the one
//     its try caught;
//   - ("after-loop-header-error", site/ending) when anko's entry is a round, tail, after-loop or result
//     entry of a loop-header pattern that the model does not have at this place (the model has left
//     the loop): something ran after the failing point.
func ErrFlowDiff(v *Verdict) (kind, class string, ok bool) {
	if v == nil || v.Out == nil {
		return "", "", false
	}
	want, got := canonTrace(v.Out.Trace), canonTrace(v.GotTrace)
	i, same := MatchTrace(want, got)
	if same || i >= len(got) {
		return "", "", false
	}
	// tag = <prefix>:<class>#<id>:<role>
	parse := func(e string) (prefix, class, id, role string) {
		if !strings.HasPrefix(e, `pd s:"`) {
			return
		}
		rest := e[len(`pd s:"`):]
		j := strings.IndexByte(rest, '"')
		if j < 0 {
			return
		}
		t := rest[:j]
		a := strings.IndexByte(t, ':')
		b := strings.IndexByte(t, '#')
		c := strings.LastIndexByte(t, ':')
		if a < 0 || b < a || c < b {
			return
		}
		return t[:a], t[a+1 : b], t[b+1 : c], t[c+1:]
	}
	gp, gc, gid, gr := parse(got[i])
	switch gp {
	case "cv":
		if i < len(want) {
			if wp, _, wid, wr := parse(want[i]); wp == "cv" && wid == gid && wr == gr {
				return "catch-variable", gc + ":" + gr, true
			}
		}
	case "hx":
		if gr == "head" || gr == "tail" || gr == "after" || gr == "result" {
			// the model is somewhere else (or at its end): is it past this loop's failing point? It is
			// when its own entry is not a round / tail entry of the same pattern
			if i < len(want) {
				if wp, _, wid, wr := parse(want[i]); wp == "hx" && wid == gid && (wr == "head" || wr == "tail") {
					return "", "", false
				}
			}
			return "after-loop-header-error", gc, true
		}
	}
	return "", "", false
}

// headerRaised counts an error raised by an expression of a loop header, by the way the round before it ended.
func (m *Model) headerRaised(c ctl, site string, lastCont bool, rounds int) {
	if c.s != sErr {
		return
	}
	switch {
	case rounds == 0:
		m.feat(site + "_raises_before_the_first_round")
	case lastCont:
		m.feat(site + "_raises_after_a_round_that_ended_with_continue")
		m.feat("loop_header_raises_after_continue")
	default:
		m.feat(site + "_raises_after_a_round_that_ran_to_its_end")
	}
}
