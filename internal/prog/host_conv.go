package prog

// Go callees whose parameters have concrete types that a script value must be CONVERTED for (C07, eighth
// round): int, int32, uint8, float32, float64, string, []int64, []string, map[string]int64, a Go func
// type, a named integer type - one, two and three parameters, fixed and variadic. The functions are free
// of side effects; each hands back what it received, in a canonical form (every integer as int64, every
// float as float64, a slice as a list), so that the slots the arguments arrived in can be compared:
// a callee with ONE fixed parameter returns the value itself (its calls can be nested as arguments),
// every other one the list of the values.
//
// What the model asserts about a conversion is deliberately narrow (hostConvExt): only pairs of script
// value and parameter type whose outcome follows from Go's conversion rules without any anko-specific
// reading are decided - a small integer for every numeric type, a float without fraction for an integer
// type, a list / map whose elements convert, a script function for a Go func type succeed; a string of
// two or more characters, a bool, a list, a map, a function given to a numeric parameter (and the like,
// see below) fail. Everything else (an integer for a string parameter, a one-character string for uint8 /
// int32, a value outside the range of a narrower type, a float with a fraction for an integer type, nil
// for a slice / map / func parameter) leaves the specified domain: the program is counted, not judged.

import (
	"fmt"
	"math"
	"reflect"
)

// ConvInt is the named integer type of the "convint" parameters.
type ConvInt int64

// ConvSig describes one of the callees: P are the parameter type codes (the last one is the element type
// of the variadic parameter when V).
type ConvSig struct {
	Name string
	P    []string
	V    bool
}

// ConvTypes are the parameter type codes that need a conversion from what a script value is.
var ConvTypes = []string{"int", "int32", "uint8", "float32", "float64", "string", "[]int64", "[]string", "map[string]int64", "func1", "convint"}

var convGoTypes = map[string]reflect.Type{
	"any":              reflect.TypeOf((*interface{})(nil)).Elem(),
	"int":              reflect.TypeOf(int(0)),
	"int64":            reflect.TypeOf(int64(0)),
	"int32":            reflect.TypeOf(int32(0)),
	"uint8":            reflect.TypeOf(uint8(0)),
	"float32":          reflect.TypeOf(float32(0)),
	"float64":          reflect.TypeOf(float64(0)),
	"string":           reflect.TypeOf(""),
	"[]int64":          reflect.TypeOf([]int64(nil)),
	"[]string":         reflect.TypeOf([]string(nil)),
	"map[string]int64": reflect.TypeOf(map[string]int64(nil)),
	"func1":            reflect.TypeOf((func(int64) int64)(nil)),
	"convint":          reflect.TypeOf(ConvInt(0)),
}

var convShort = map[string]string{
	"any": "any", "int": "int", "int64": "i64", "int32": "i32", "uint8": "u8", "float32": "f32", "float64": "f64", "string": "str",
	"[]int64": "ints", "[]string": "strs", "map[string]int64": "map", "func1": "fn", "convint": "named",
}

// ConvSigs is the table of the callees; the names are gk_<types> (fixed) and gkv_<types> (variadic).
var ConvSigs = func() []ConvSig {
	var out []ConvSig
	add := func(v bool, p ...string) {
		name := "gk"
		if v {
			name = "gkv"
		}
		for _, t := range p {
			name += "_" + convShort[t]
		}
		out = append(out, ConvSig{Name: name, P: p, V: v})
	}
	// one parameter: every type
	for _, t := range ConvTypes {
		add(false, t)
	}
	// two parameters
	add(false, "int", "string")
	add(false, "string", "int32")
	add(false, "float32", "[]int64")
	add(false, "uint8", "convint")
	add(false, "func1", "int")
	add(false, "[]string", "float64")
	add(false, "map[string]int64", "uint8")
	add(false, "convint", "any")
	add(false, "any", "int")
	add(false, "int", "int")
	// three parameters
	add(false, "int", "float32", "string")
	add(false, "[]string", "int32", "map[string]int64")
	add(false, "convint", "any", "uint8")
	add(false, "string", "func1", "[]int64")
	add(false, "uint8", "uint8", "float64")
	add(false, "any", "int", "any")
	// variadic: only the variadic parameter, one and two fixed parameters before it
	add(true, "int")
	add(true, "string")
	add(true, "float32")
	add(true, "[]int64")
	add(true, "int", "float32")
	add(true, "string", "int32")
	add(true, "any", "uint8")
	add(true, "convint", "string")
	add(true, "func1", "int")
	add(true, "uint8", "string", "convint")
	add(true, "int", "[]string", "float64")
	add(true, "float32", "any", "int")
	return out
}()

var convByName = func() map[string]ConvSig {
	m := map[string]ConvSig{}
	for _, s := range ConvSigs {
		m[s.Name] = s
	}
	return m
}()

func init() {
	for _, s := range ConvSigs {
		HostFuncs[s.Name] = &Func{Host: s.Name, HP: s.P, HV: s.V}
	}
}

// isConvCallee: fn is one of the callees of this file.
func isConvCallee(fn *Func) bool {
	_, ok := convByName[fn.Host]
	return ok
}

// convReturnsValue: the callee has one fixed parameter and returns the value it received, not a list.
func convReturnsValue(fn *Func) bool {
	s, ok := convByName[fn.Host]
	return ok && !s.V && len(s.P) == 1
}

// convCanon is the canonical form of what a callee received.
func convCanon(v reflect.Value) interface{} {
	switch v.Kind() {
	case reflect.Int, reflect.Int8, reflect.Int16, reflect.Int32, reflect.Int64:
		return v.Int()
	case reflect.Uint, reflect.Uint8, reflect.Uint16, reflect.Uint32, reflect.Uint64:
		return int64(v.Uint())
	case reflect.Float32, reflect.Float64:
		return v.Float()
	case reflect.String:
		return v.String()
	case reflect.Slice:
		out := make([]interface{}, v.Len())
		for i := range out {
			out[i] = convCanon(v.Index(i))
		}
		return out
	case reflect.Map:
		out := map[interface{}]interface{}{}
		for _, k := range v.MapKeys() {
			out[convCanon(k)] = convCanon(v.MapIndex(k))
		}
		return out
	case reflect.Interface:
		if v.IsNil() {
			return nil
		}
		return v.Elem().Interface()
	}
	return v.Interface()
}

// convFuncs are the callees as Go values (built once: they hold no state).
var convFuncs = func() map[string]interface{} {
	out := map[string]interface{}{}
	ifaceT := convGoTypes["any"]
	for _, s := range ConvSigs {
		s := s
		in := make([]reflect.Type, len(s.P))
		for i, t := range s.P {
			in[i] = convGoTypes[t]
		}
		if s.V {
			in[len(in)-1] = reflect.SliceOf(in[len(in)-1])
		}
		ft := reflect.FuncOf(in, []reflect.Type{ifaceT}, s.V)
		fn := reflect.MakeFunc(ft, func(args []reflect.Value) []reflect.Value {
			got := []interface{}{}
			for i, a := range args {
				if s.V && i == len(args)-1 {
					for j := 0; j < a.Len(); j++ {
						got = append(got, convCanon(a.Index(j)))
					}
					break
				}
				got = append(got, convCanon(a))
			}
			res := reflect.New(ifaceT).Elem()
			var r interface{} = got
			if !s.V && len(s.P) == 1 {
				r = got[0]
			}
			if r != nil {
				res.Set(reflect.ValueOf(r))
			}
			return []reflect.Value{res}
		})
		out[s.Name] = fn.Interface()
	}
	return out
}()

// defineConvCallees binds the callees in the host environment.
func defineConvCallees(h *Host) {
	for _, s := range ConvSigs {
		h.Env.Define(s.Name, convFuncs[s.Name])
	}
}

const (
	convOK = iota
	convFails
	convUnspec
)

// convDecide converts the model value v for a parameter (or element) of type typ.
func convDecide(v interface{}, typ string) (interface{}, int) {
	switch v.(type) {
	case nil, bool, int64, float64, string, *List, *Map, *Func:
	default:
		return nil, convUnspec
	}
	intRange := func(i int64) bool {
		switch typ {
		case "int32":
			return i >= math.MinInt32 && i <= math.MaxInt32
		case "uint8":
			return i >= 0 && i <= 255
		}
		return true
	}
	switch typ {
	case "any":
		return v, convOK
	case "int", "int64", "int32", "uint8", "convint":
		switch t := v.(type) {
		case nil:
			return int64(0), convOK
		case int64:
			if !intRange(t) {
				return nil, convUnspec
			}
			return t, convOK
		case float64:
			if t != math.Trunc(t) || math.Abs(t) > 1<<30 || !intRange(int64(t)) {
				return nil, convUnspec
			}
			return int64(t), convOK
		case string:
			if len(t) < 2 && (typ == "uint8" || typ == "int32") {
				return nil, convUnspec
			}
			return nil, convFails
		}
		return nil, convFails
	case "float32", "float64":
		switch t := v.(type) {
		case nil:
			return float64(0), convOK
		case int64:
			if t > 1<<24 || t < -(1<<24) {
				return nil, convUnspec
			}
			return float64(t), convOK
		case float64:
			if typ == "float32" && float64(float32(t)) != t {
				return nil, convUnspec
			}
			return t, convOK
		}
		return nil, convFails
	case "string":
		switch t := v.(type) {
		case nil:
			return "", convOK
		case string:
			return t, convOK
		case int64:
			return nil, convUnspec
		}
		return nil, convFails
	case "[]int64", "[]string":
		l, ok := v.(*List)
		if v == nil {
			return nil, convUnspec
		}
		if !ok {
			return nil, convFails
		}
		out := &List{E: make([]interface{}, 0, len(l.E))}
		worst := convOK
		for _, e := range l.E {
			cv, st := convDecide(e, typ[2:])
			if st > worst {
				worst = st
			}
			out.E = append(out.E, cv)
		}
		return out, worst
	case "map[string]int64":
		mp, ok := v.(*Map)
		if v == nil {
			return nil, convUnspec
		}
		if !ok {
			return nil, convFails
		}
		out := &Map{}
		worst := convOK
		for i := range mp.K {
			k, st := convDecide(mp.K[i], "string")
			if st > worst {
				worst = st
			}
			e, st := convDecide(mp.V[i], "int64")
			if st > worst {
				worst = st
			}
			out.K = append(out.K, k)
			out.V = append(out.V, e)
		}
		return out, worst
	case "func1":
		if v == nil {
			return nil, convUnspec
		}
		if f, ok := v.(*Func); ok && f.Host == "" {
			return f, convOK
		}
		// also a Go function (every one the host offers has another type than func(int64) int64)
		return nil, convFails
	}
	return nil, convUnspec
}

// hostConvExt is hostConv for the parameter types of this file; done = typ is one of them.
func hostConvExt(v interface{}, typ string) (cv interface{}, ok bool, done bool) {
	switch typ {
	case "int", "int32", "uint8", "convint", "float32", "float64", "[]int64", "[]string", "map[string]int64", "func1":
	case "string":
		// as hostConv has it, except for an integer (Go converts it to the character with that number: not
		// a reading any statement gives): no generator hands an integer to a string parameter
		if _, isInt := v.(int64); !isInt {
			return nil, false, false
		}
	default:
		return nil, false, false
	}
	cv, st := convDecide(v, typ)
	switch st {
	case convOK:
		return cv, true, true
	case convFails:
		return nil, false, true
	}
	panic(unspecified{fmt.Sprintf("conversion of %s for a Go parameter of type %s", Render(v), typ)})
}
