package prog

import (
	"errors"
	"context"
	"fmt"
	"reflect"
	"sort"
	"strconv"
	"strings"
	"sync"
	"time"

	"github.com/mattn/anko/env"

	"verif/internal/ank"
)

// Host is the anko-side probe environment: p(id[, v]) logs and returns, pfail(id) logs and panics.
type Host struct {
	mu    sync.Mutex
	Trace []string
	Env   *env.Env
	// Nested: Env is a child (with an empty external lookup) of the environment that holds the host functions
	Nested bool
	// abandoned: ExecTimeout gave the run up while it was still going (see there): the probes log nothing any more
	abandoned bool
}

// HostStruct is the type of hst, a Go struct the host binds by pointer.
type HostStruct struct {
	F int64
	S string
	A [2]int64
}

// HostBox is the type of hbox, a Go struct the host binds by pointer whose fields hold a slice, a
// slice of strings and a map (gen_ctlvals.go).
type HostBox struct {
	Row   []int64
	Items []string
	M     map[string]int64
}

// NewHost builds a fresh environment with the probe functions.
func NewHost() *Host {
	h := &Host{Env: env.NewEnv()}
	h.Env.Define("p", func(args ...interface{}) interface{} {
		h.mu.Lock()
		defer h.mu.Unlock()
		if h.abandoned {
			return nil
		}
		if len(args) == 0 {
			h.Trace = append(h.Trace, "p")
			return nil
		}
		if len(args) > 1 {
			h.Trace = append(h.Trace, "p "+RenderGo(args[0])+" "+RenderGo(args[1]))
			return args[1]
		}
		h.Trace = append(h.Trace, "p "+RenderGo(args[0]))
		return args[0]
	})
	h.Env.Define("pfail", func(id interface{}) interface{} {
		h.mu.Lock()
		if !h.abandoned {
			h.Trace = append(h.Trace, "pfail "+RenderGo(id))
		}
		h.mu.Unlock()
		if n, ok := id.(int64); ok && n%2 == 1 {
			// a Go function may panic with an error value as well as with a text: the script sees the same
			// message, the interpreter holds another kind of error
			panic(errors.New("pfail"))
		}
		panic("pfail")
	})
	list := func(xs ...interface{}) interface{} { return append([]interface{}{}, xs...) }
	h.Env.Define("gfix1", func(a interface{}) interface{} { return list(a) })
	h.Env.Define("gfix2", func(a, b interface{}) interface{} { return list(a, b) })
	h.Env.Define("gfix3", func(a, b, c interface{}) interface{} { return list(a, b, c) })
	h.Env.Define("gfix5", func(a, b, c, d, e interface{}) interface{} { return list(a, b, c, d, e) })
	h.Env.Define("gvar", func(a interface{}, rest ...interface{}) interface{} {
		return list(append([]interface{}{a}, rest...)...)
	})
	h.Env.Define("gcall0", func(f func()) { f() })
	h.Env.Define("geach", func(xs []interface{}, f func(interface{})) {
		for _, x := range xs {
			f(x)
		}
	})
	h.Env.Define("gderef", func(p interface{}, b interface{}) interface{} {
		v := reflect.ValueOf(p)
		for v.IsValid() && (v.Kind() == reflect.Ptr || v.Kind() == reflect.Interface) && !v.IsNil() {
			v = v.Elem()
		}
		if !v.IsValid() || ((v.Kind() == reflect.Ptr || v.Kind() == reflect.Interface) && v.IsNil()) {
			return list(nil, b)
		}
		return list(v.Interface(), b)
	})
	h.Env.Define("gset", func(p *int64, v int64) { *p = v })
	h.Env.Define("hnil", map[string]interface{}(nil))
	h.Env.Define("hnilm", map[interface{}]interface{}(nil))
	h.Env.Define("harr", [3]int64{5, 6, 7})
	h.Env.Define("hnilptrs", []*int64{nil, nil, nil})
	// hst: a pointer to a Go struct (fields are assignable through it)
	h.Env.Define("hst", &HostStruct{F: 7, S: "g", A: [2]int64{1, 2}})
	h.Env.Define("hbox", &HostBox{Row: []int64{1, 2}, Items: []string{"a", "b"}, M: map[string]int64{"a": 1}})
	h.Env.Define("gch", func(v interface{}) interface{} {
		ch := make(chan interface{}, 1)
		ch <- v
		return ch
	})
	h.Env.Define("gchc", func(vs ...interface{}) interface{} {
		ch := make(chan interface{}, len(vs)+1)
		for _, v := range vs {
			ch <- v
		}
		close(ch)
		return ch
	})
	h.Env.Define("gtyped", func(a int64, b string, c int64) interface{} { return list(a, b, c) })
	h.Env.Define("gtvar", func(a string, rest ...int64) interface{} {
		out := []interface{}{a}
		for _, r := range rest {
			out = append(out, r)
		}
		return out
	})
	// pd(tag, args...) logs every argument it received (see gen_deferargs.go); pd3 is the same probe
	// with a fixed parameter list, pdi the same with typed parameters and a typed variadic tail
	pd := func(tag string, args ...interface{}) interface{} {
		parts := []string{RenderGo(tag)}
		for _, a := range args {
			parts = append(parts, RenderGo(a))
		}
		h.mu.Lock()
		if !h.abandoned {
			h.Trace = append(h.Trace, "pd "+strings.Join(parts, " "))
		}
		h.mu.Unlock()
		return nil
	}
	h.Env.Define("pd", pd)
	h.Env.Define("pd3", func(tag string, a, b interface{}) interface{} { return pd(tag, a, b) })
	h.Env.Define("pdi", func(tag string, a int64, rest ...int64) interface{} {
		args := []interface{}{a}
		for _, r := range rest {
			args = append(args, r)
		}
		return pd(tag, args...)
	})
	defineConvCallees(h) // host_conv.go
	return h
}

// emptyLookup is an external lookup that knows no name.
type emptyLookup struct{}

func (emptyLookup) Get(name string) (reflect.Value, error) {
	return reflect.Value{}, fmt.Errorf("undefined symbol '%s'", name)
}
func (emptyLookup) Type(name string) (reflect.Type, error) {
	return nil, fmt.Errorf("undefined type '%s'", name)
}

// NewHostFor builds the environment a program is judged in. Every fourth source text (by a hash of
// the text, so that a replay sees the same environment) runs the way a host that serves many scripts
// runs them: the probe and helper functions live in a shared base environment, the program runs in
// a child of it, and the child has an external lookup attached (one that knows no name). Names
// resolve exactly as in a single environment: the nearest binding along the chain of scopes.
func NewHostFor(src string) *Host {
	h := NewHost()
	var x uint32 = 2166136261
	for i := 0; i < len(src); i++ {
		x = (x ^ uint32(src[i])) * 16777619
	}
	if x%4 == 0 {
		child := h.Env.NewEnv()
		child.SetExternalLookup(emptyLookup{})
		h.Env = child
		h.Nested = true
	}
	return h
}

// Exec runs src in the host environment (non-debug mode).
func (h *Host) Exec(src string) (interface{}, error) {
	return ank.ExecCtx(context.Background(), h.Env, src)
}

// ExecTimeout is Exec under a deadline; timedOut reports that the deadline ended the run.
//
// The interruption does not reach a script function that a Go function calls back (gcall0, geach: the
// interpreter runs such a callback without the caller's context), so a loop that never ends inside a
// callback would never return here. The run therefore goes on a goroutine of its own; when it is still
// going 3 s after the deadline it is given up - reported as timed out, left running, its probes muted -
// so that a change under test that makes such a loop spin is reported as a hang instead of stalling
// the whole check.
func (h *Host) ExecTimeout(src string, d time.Duration) (v interface{}, err error, timedOut bool) {
	ctx, cancel := context.WithTimeout(context.Background(), d)
	defer cancel()
	type result struct {
		v   interface{}
		err error
	}
	done := make(chan result, 1)
	go func() {
		v, err := ank.ExecCtx(ctx, h.Env, src)
		done <- result{v, err}
	}()
	grace := time.NewTimer(d + 3*time.Second)
	defer grace.Stop()
	select {
	case r := <-done:
		return r.v, r.err, ctx.Err() != nil && r.err != nil
	case <-grace.C:
		h.mu.Lock()
		h.abandoned = true
		h.mu.Unlock()
		return nil, errors.New("the run ignores the interruption: still running 3 s after the deadline"), true
	}
}

// RenderGo renders a Go value produced by anko in the format of Render.
func RenderGo(v interface{}) string {
	if v == nil {
		return "nil"
	}
	switch t := v.(type) {
	case bool:
		return "b:" + strconv.FormatBool(t)
	case int64:
		return "i:" + strconv.FormatInt(t, 10)
	case float64:
		return "f:" + strconv.FormatFloat(t, 'g', -1, 64)
	case string:
		return "s:" + strconv.Quote(t)
	case []interface{}:
		parts := make([]string, len(t))
		for i, e := range t {
			parts[i] = RenderGo(e)
		}
		return "[" + strings.Join(parts, ",") + "]"
	case map[interface{}]interface{}:
		parts := make([]string, 0, len(t))
		for k, e := range t {
			parts = append(parts, RenderGo(k)+"="+RenderGo(e))
		}
		sort.Strings(parts)
		return "{" + strings.Join(parts, ",") + "}"
	case *env.Env:
		return "module"
	case error:
		return "err:" + strconv.Quote(t.Error())
	}
	rv := reflect.ValueOf(v)
	switch rv.Kind() {
	case reflect.Func:
		return "fn"
	case reflect.Slice, reflect.Array:
		if rv.Kind() == reflect.Slice && rv.IsNil() {
			return "nil:" + rv.Type().String()
		}
		parts := make([]string, rv.Len())
		for i := range parts {
			parts[i] = RenderGo(rv.Index(i).Interface())
		}
		return "[" + strings.Join(parts, ",") + "]"
	case reflect.Map:
		if rv.IsNil() {
			return "nil:" + rv.Type().String()
		}
		parts := make([]string, 0, rv.Len())
		for _, k := range rv.MapKeys() {
			parts = append(parts, RenderGo(k.Interface())+"="+RenderGo(rv.MapIndex(k).Interface()))
		}
		sort.Strings(parts)
		return "{" + strings.Join(parts, ",") + "}"
	case reflect.Interface, reflect.Ptr, reflect.Chan:
		if rv.IsNil() {
			return "nil:" + rv.Type().String()
		}
	}
	return fmt.Sprintf("?%s:%v", rv.Type(), v)
}

// Match reports whether the anko-side rendering got matches the model rendering want,
// where `err:?` in want matches any `err:"…"` in got.
func Match(want, got string) bool {
	i, j := 0, 0
	for i < len(want) {
		if strings.HasPrefix(want[i:], "err:?") {
			if !strings.HasPrefix(got[j:], `err:"`) {
				return false
			}
			// skip the quoted string in got
			k := j + 5
			for k < len(got) {
				if got[k] == '\\' {
					k += 2
					continue
				}
				if got[k] == '"' {
					break
				}
				k++
			}
			if k >= len(got) {
				return false
			}
			j = k + 1
			i += 5
			continue
		}
		if j >= len(got) || want[i] != got[j] {
			return false
		}
		i++
		j++
	}
	return j == len(got)
}

// MatchTrace compares traces entry by entry.
func MatchTrace(want, got []string) (int, bool) {
	for i := 0; i < len(want) || i < len(got); i++ {
		if i >= len(want) || i >= len(got) || !Match(want[i], got[i]) {
			return i, false
		}
	}
	return -1, true
}
