package prog

import "fmt"

// ---------- by-construction pattern of Profile.Assign ----------

// wrapBlock puts inner into one of the block forms of the language (the forms of scopeCross); tag
// prefixes the class counter. Loop forms run inner twice.
func (g *G) wrapBlock(c *gctx, inner []*N, tag string) []*N {
	switch g.n(0, 12, "wrapform") {
	case 0:
		g.feat(tag + "if_then")
		return []*N{{K: "if", Ns: []*N{{K: "true"}}, Ss: [][]*N{inner}}}
	case 1:
		g.feat(tag + "else")
		return []*N{{K: "if", Ns: []*N{{K: "false"}}, Ss: [][]*N{{}, inner}, B: true}}
	case 2:
		g.feat(tag + "else_if")
		return []*N{{K: "if", Ns: []*N{{K: "false"}, {K: "true"}}, Ss: [][]*N{{}, inner}}}
	case 3:
		g.feat(tag + "forin_body")
		return []*N{{K: "forin", Ps: []string{"it"}, Ns: []*N{{K: "list", Ns: []*N{g.val(), g.val()}}}, Ss: [][]*N{inner}}}
	case 4:
		g.feat(tag + "loop_body")
		ctr := g.ctr()
		body := append([]*N{{K: "let", Ps: []string{ctr}, Ns: []*N{Bin("+", Id(ctr), Int(1))}}}, inner...)
		return []*N{{K: "var", Ps: []string{ctr}, Ns: []*N{Int(0)}}, {K: "loop", Ns: []*N{Bin("<", Id(ctr), Int(2))}, Ss: [][]*N{body}}}
	case 5:
		g.feat(tag + "cfor_body")
		ctr := g.ctr()
		return []*N{{K: "cfor", Ns: []*N{{K: "let", Ps: []string{ctr}, Ns: []*N{Int(0)}}, Bin("<", Id(ctr), Int(2)), {K: "inc", S: ctr, I: 1}}, Ss: [][]*N{inner}}}
	case 6:
		g.feat(tag + "switch_case")
		return []*N{{K: "switch", Ns: []*N{Int(1), {K: "case", Ns: []*N{Int(1)}, Ss: [][]*N{inner}}}}}
	case 7:
		g.feat(tag + "switch_default")
		return []*N{{K: "switch", Ns: []*N{Int(1), {K: "case", Ns: []*N{Int(2)}, Ss: [][]*N{{}}}, {K: "default", Ss: [][]*N{inner}}}}}
	case 8:
		g.feat(tag + "try_body")
		return []*N{{K: "try", Ss: [][]*N{inner, {}}}}
	case 9:
		g.feat(tag + "catch_body")
		return []*N{{K: "try", Ss: [][]*N{{{K: "throw", Ns: []*N{Str("E")}}}, inner}}}
	case 10:
		g.feat(tag + "finally_body")
		return []*N{{K: "try", B: true, Ss: [][]*N{{}, {}, inner}}}
	case 11:
		g.feat(tag + "function_body")
		return []*N{{K: "expr", Ns: []*N{{K: "acall", Ns: []*N{{K: "fn", Ss: [][]*N{append(append([]*N{}, inner...), &N{K: "ret"})}}}}}}}
	default:
		g.feat(tag + "module_body")
		g.nextMod++
		return []*N{{K: "module", S: fmt.Sprintf("mw%d", g.nextMod), Ss: [][]*N{inner}}}
	}
}

// assignCross: a name is bound in the current scope (by assignment or var; a fresh name or a pool
// name); then, inside a nested block of any form - one level, two levels, two levels with a var of
// the same name in between, or a closure made here and called from inside a block - one of the
// forms that ASSIGN (no var) gives it a new value: plain assignment, multi-assignment, several
// names from one list value, the two-value map lookup `v, ok = m[k]`, the receive assignments
// `v = <-ch` / `v, ok = <-ch`, and the call of a Go function that writes through `&name`. The name
// is read right after the assignment inside the block, after every enclosing block, and at the end:
// an assignment updates the nearest existing binding. A second target of the two-name forms is either
// bound outside as well (updated) or not (created in the block, gone afterwards).
func (g *G) assignCross(c *gctx) []*N {
	g.feat("assign_cross")
	pooled := g.chance(40)
	z := fmt.Sprintf("z%d", g.id())
	if pooled {
		z = g.name()
	}
	zb := fmt.Sprintf("y%d", g.id())
	see := func(nm string) *N { return &N{K: "expr", Ns: []*N{P1(g.id(), Id(nm))}} }

	// the assigning form
	hi := 3
	if g.prof.HostChan {
		hi = 6
	}
	var asg *N
	two := false
	switch g.n(0, hi, "assignform") {
	case 0:
		g.feat("assign_form_plain")
		asg = &N{K: "let", Ps: []string{z}, Ns: []*N{g.val()}}
	case 1:
		g.feat("assign_form_multi")
		two = true
		asg = &N{K: "let", Ps: []string{z, zb}, Ns: []*N{g.val(), g.val()}}
		if g.chance(40) {
			asg.Ps = []string{zb, z}
		}
	case 2:
		g.feat("assign_form_names_from_one_list")
		two = true
		asg = &N{K: "let", Ps: []string{z, zb}, Ns: []*N{{K: "list", Ns: []*N{g.val(), g.val()}}}}
		if g.chance(40) {
			asg.Ps = []string{zb, z}
		}
	case 3:
		g.feat("assign_form_map_lookup_two_values")
		two = true
		key := "k"
		ps := []string{z, zb}
		if !pooled {
			// a fresh name may also receive nil (absent key) or the found flag
			if g.chance(30) {
				key = "missing"
			}
			if g.chance(30) {
				ps = []string{zb, z}
			}
		}
		asg = &N{K: "letmap", Ps: ps, Ns: []*N{{K: "map", Ns: []*N{Str("k"), g.val()}}, Str(key)}}
	case 4:
		g.feat("assign_form_chan_receive")
		asg = &N{K: "letchan", Ps: []string{z}, Ns: []*N{g.val()}}
	case 5:
		g.feat("assign_form_chan_receive_two_values")
		two = true
		asg = &N{K: "letchan", Ps: []string{z, zb}, Ns: []*N{g.val()}}
	default:
		g.feat("assign_form_go_function_writes_through_address")
		asg = &N{K: "expr", Ns: []*N{Call("gset", &N{K: "addr", Ns: []*N{Id(z)}}, g.val())}}
	}

	// the bindings of the enclosing scope
	kind := "let"
	if g.chance(40) {
		kind = "var"
	}
	out := []*N{{K: kind, Ps: []string{z}, Ns: []*N{g.val()}}}
	secondOuter := two && g.chance(50)
	if secondOuter {
		g.feat("assign_second_target_bound_outside")
		out = append(out, &N{K: "var", Ps: []string{zb}, Ns: []*N{g.val()}})
	} else if two {
		g.feat("assign_second_target_created_in_block")
	}
	seen := func() []*N {
		s := []*N{see(z)}
		if two {
			s = append(s, g.existOnly(zb))
			if secondOuter {
				s = append(s, see(zb))
			}
		}
		return s
	}
	inner := append([]*N{asg}, seen()...)

	switch g.n(0, 5, "assignnest") {
	case 0, 1:
		g.feat("assign_nest_one_block")
		out = append(out, g.wrapBlock(c, inner, "assign_in_")...)
	case 2:
		g.feat("assign_nest_two_blocks")
		mid := append(g.wrapBlock(c, inner, "assign_in_"), seen()...)
		out = append(out, g.wrapBlock(c, mid, "assign_under_")...)
	case 3:
		// a var of the same name between the outer binding and the assignment: the assignment
		// updates that one, the outer binding stays
		g.feat("assign_nest_var_between")
		mid := append([]*N{{K: "var", Ps: []string{z}, Ns: []*N{g.val()}}}, g.wrapBlock(c, inner, "assign_in_")...)
		mid = append(mid, seen()...)
		out = append(out, g.wrapBlock(c, mid, "assign_under_")...)
	default:
		// a closure made in the scope of the binding, called from inside a block
		g.feat("assign_nest_closure_called_in_block")
		g.nextFn++
		fn := fmt.Sprintf("af%d", g.nextFn)
		out = append(out, &N{K: "let", Ps: []string{fn}, Ns: []*N{{K: "fn", Ss: [][]*N{append(append([]*N{}, inner...), &N{K: "ret", Ns: []*N{Int(0)}})}}}})
		call := []*N{{K: "expr", Ns: []*N{Call(fn)}}}
		call = append(call, seen()...)
		out = append(out, g.wrapBlock(c, call, "assign_call_in_")...)
	}
	return append(out, seen()...)
}
