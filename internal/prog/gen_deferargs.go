package prog

import (
	"fmt"
	"strings"
)

// Pattern of the profile flag ErrOps (C09): the arguments of a deferred call are the values the
// argument expressions had AT THE DEFER STATEMENT. Every argument that matters is read from a slot
// (list element, typed / made slice element, struct field, element of an array field, pointee, map
// entry) that is stored into afterwards - by the statements after the defer, by the next round of
// the loop the defer stands in, or by a later argument of the same call - and the callee logs what
// it received through the probe pd(tag, args...). Callees: script functions with a variadic tail,
// with fixed parameters before the tail, with five and more parameters, Go functions with a
// variadic, a fixed and a typed parameter list; called by name or as a function literal; with the
// last argument spread from a list whose NAME is bound to another list afterwards (nothing is
// stored into a list that was spread: the callee may hold the list itself).
//
// Nothing here asserts value semantics of a container: only ints and strings are read from slots -
// except in the slots of daRefSlots, whose own type is a slice or a map: there the argument is the
// slice / map the slot held at the defer statement, the slot is ASSIGNED another slice / map afterwards
// (never stored into through the old one), and the callee logs the one it received.

type daSlot struct {
	read  func() *N
	store func(v *N) *N
	str   bool
	class string
	// slots whose own type is a slice or a map (daRefSlots): fresh builds a new value of the slot's type,
	// wrap builds one around a scalar expression (the variable of the loop the defer stands in)
	ref   bool
	fresh func() *N
	wrap  func(z *N) *N
}

// newVal is an expression for a new value of the slot's type.
func (g *G) daNewVal(s daSlot) *N {
	if s.fresh != nil {
		return s.fresh()
	}
	return g.daVal(s.str)
}

type daCallee struct {
	class    string
	defs     []*N // statements that define it (none for Go functions)
	nfix     int  // fixed parameters (for Go functions: after the tag)
	variadic bool
	intsOnly bool
	tag      *N // the text the probe logs first: "<callee class>#<id>"
	call     func(args []*N, spread bool) *N
}

func (g *G) daVal(str bool) *N {
	if str {
		return Str(fmt.Sprintf("s%d", g.id()))
	}
	return g.val()
}

// daSlots draws the kind of slot and returns the statements that create the two slots.
func (g *G) daSlots(k int) ([]*N, [2]daSlot) {
	var pre []*N
	var slots [2]daSlot
	cont := fmt.Sprintf("dc%d", k)
	indexed := func(class string, contExpr func() *N, key func(i int) *N, str bool) {
		for i := range slots {
			i := i
			slots[i] = daSlot{
				read:  func() *N { return &N{K: "idx", Ns: []*N{contExpr(), key(i)}} },
				store: func(v *N) *N { return &N{K: "letidx", Ns: []*N{contExpr(), key(i), v}} },
				str:   str, class: class,
			}
		}
	}
	byPos := func(i int) *N { return Int(int64(i)) }
	contID := func() *N { return Id(cont) }
	kind := g.n(0, 13, "daslot")
	if kind >= 10 {
		return g.daRefSlots(k, kind-10)
	}
	switch kind {
	case 0:
		pre = []*N{{K: "let", Ps: []string{cont}, Ns: []*N{{K: "list", Ns: []*N{g.val(), g.val()}}}}}
		indexed("list_element", contID, byPos, false)
	case 1:
		pre = []*N{{K: "let", Ps: []string{cont}, Ns: []*N{{K: "list", Ns: []*N{g.daVal(true), g.daVal(true)}}}}}
		indexed("list_element", contID, byPos, true)
	case 2:
		pre = []*N{{K: "let", Ps: []string{cont}, Ns: []*N{{K: "tlist", S: "int64", Ns: []*N{g.val(), g.val()}}}}}
		indexed("typed_slice_element", contID, byPos, false)
	case 3:
		pre = []*N{{K: "let", Ps: []string{cont}, Ns: []*N{{K: "tlist", S: "string", Ns: []*N{g.daVal(true), g.daVal(true)}}}}}
		indexed("typed_slice_element", contID, byPos, true)
	case 4:
		pre = []*N{
			{K: "let", Ps: []string{cont}, Ns: []*N{{K: "mkslice", S: "int64", I: int64(g.n(2, 3, "mklen"))}}},
			{K: "letidx", Ns: []*N{contID(), Int(0), g.val()}},
			{K: "letidx", Ns: []*N{contID(), Int(1), g.val()}},
		}
		indexed("made_slice_element", contID, byPos, false)
	case 5:
		// the fields F (an int64) and S (a string) of the Go struct the host bound by pointer
		for i, f := range []string{"F", "S"} {
			f, str := f, i == 1
			slots[i] = daSlot{
				read:  func() *N { return &N{K: "mem", S: f, Ns: []*N{Id("hst")}} },
				store: func(v *N) *N { return &N{K: "letmem", S: f, Ns: []*N{Id("hst"), v}} },
				str:   str, class: "struct_field",
			}
			pre = append(pre, slots[i].store(g.daVal(str)))
		}
	case 6:
		hA := func() *N { return &N{K: "mem", S: "A", Ns: []*N{Id("hst")}} }
		indexed("array_field_element", hA, byPos, false)
		pre = []*N{slots[0].store(g.val()), slots[1].store(g.val())}
	case 7:
		// pointees: `var x = v; px = &x`, x is never used again
		str := g.chance(30)
		for i := range slots {
			x, px := fmt.Sprintf("dx%d_%d", k, i), fmt.Sprintf("dp%d_%d", k, i)
			pre = append(pre,
				&N{K: "var", Ps: []string{x}, Ns: []*N{g.daVal(str)}},
				&N{K: "var", Ps: []string{px}, Ns: []*N{{K: "addr", Ns: []*N{Id(x)}}}})
			slots[i] = daSlot{
				read:  func() *N { return &N{K: "deref", Ns: []*N{Id(px)}} },
				store: func(v *N) *N { return &N{K: "letderef", Ns: []*N{Id(px), v}} },
				str:   str, class: "pointee",
			}
		}
	case 8:
		str := g.chance(30)
		pre = []*N{{K: "let", Ps: []string{cont}, Ns: []*N{{K: "map", Ns: []*N{Str("k0"), g.daVal(str), Str("k1"), g.daVal(str)}}}}}
		indexed("map_entry", contID, func(i int) *N { return Str(fmt.Sprintf("k%d", i)) }, str)
	default:
		// plain variables (no slot to point into: the comparison class)
		str := g.chance(30)
		for i := range slots {
			x := fmt.Sprintf("dx%d_%d", k, i)
			pre = append(pre, &N{K: "var", Ps: []string{x}, Ns: []*N{g.daVal(str)}})
			slots[i] = daSlot{
				read:  func() *N { return Id(x) },
				store: func(v *N) *N { return &N{K: "let", Ps: []string{x}, Ns: []*N{v}} },
				str:   str, class: "plain_variable",
			}
		}
	}
	return pre, slots
}

// daRefSlots: slots whose own static type is a slice or a map - elements of a slice of slices / of maps
// and the slice and map fields of the Go struct hbox the host binds by pointer. A value read from such
// a slot is a reference in Go too: assigning the SLOT another slice afterwards does not change the one
// that was read (`defer f(a[0]); a[0] = []int64{2, 3}` hands f the slice a[0] held at the defer).
func (g *G) daRefSlots(k, form int) ([]*N, [2]daSlot) {
	var pre []*N
	var slots [2]daSlot
	cont := fmt.Sprintf("dc%d", k)
	contID := func() *N { return Id(cont) }
	ints := func() *N {
		l := &N{K: "tlist", S: "int64"}
		for i := g.n(1, 3, "dareflen"); i > 0; i-- {
			l.Ns = append(l.Ns, g.val())
		}
		return l
	}
	intsOf := func(z *N) *N { return &N{K: "tlist", S: "int64", Ns: []*N{z, g.val()}} }
	strs := func() *N {
		l := &N{K: "tlist", S: "string"}
		for i := g.n(1, 3, "dareflen"); i > 0; i-- {
			l.Ns = append(l.Ns, g.daVal(true))
		}
		return l
	}
	strsOf := func(z *N) *N { return &N{K: "tlist", S: "string", Ns: []*N{z, g.daVal(true)}} }
	imap := func() *N {
		mp := &N{K: "tmap", S: "int64"}
		for i, n := 0, g.n(1, 3, "dareflen"); i < n; i++ {
			mp.Ns = append(mp.Ns, Str(fmt.Sprintf("m%d", i)), g.val())
		}
		return mp
	}
	imapOf := func(z *N) *N { return &N{K: "tmap", S: "int64", Ns: []*N{Str("z"), z, Str("m"), g.val()}} }
	elems := func(class string, str bool, fresh func() *N, wrap func(*N) *N) {
		for i := range slots {
			i := i
			slots[i] = daSlot{
				read:  func() *N { return &N{K: "idx", Ns: []*N{contID(), Int(int64(i))}} },
				store: func(v *N) *N { return &N{K: "letidx", Ns: []*N{contID(), Int(int64(i)), v}} },
				str:   str, class: class, ref: true, fresh: fresh, wrap: wrap,
			}
		}
	}
	field := func(i int, name string, str bool, fresh func() *N, wrap func(*N) *N) {
		slots[i] = daSlot{
			read:  func() *N { return &N{K: "mem", S: name, Ns: []*N{Id("hbox")}} },
			store: func(v *N) *N { return &N{K: "letmem", S: name, Ns: []*N{Id("hbox"), v}} },
			str:   str, class: "struct_field_holding_slice_or_map", ref: true, fresh: fresh, wrap: wrap,
		}
	}
	switch form {
	case 0:
		switch g.n(0, 2, "darefmade") {
		case 0:
			elems("made_slice_of_slices_element", false, ints, intsOf)
			pre = []*N{{K: "let", Ps: []string{cont}, Ns: []*N{{K: "mkslice", S: "[]int64", I: int64(g.n(2, 3, "mklen"))}}}}
		case 1:
			elems("made_slice_of_slices_element", true, strs, strsOf)
			pre = []*N{{K: "let", Ps: []string{cont}, Ns: []*N{{K: "mkslice", S: "[]string", I: int64(g.n(2, 3, "mklen"))}}}}
		default:
			elems("made_slice_of_maps_element", false, imap, imapOf)
			pre = []*N{{K: "let", Ps: []string{cont}, Ns: []*N{{K: "mkslice", S: "map[string]int64", I: int64(g.n(2, 3, "mklen"))}}}}
		}
		pre = append(pre, slots[0].store(slots[0].fresh()), slots[1].store(slots[1].fresh()))
	case 1:
		if g.chance(50) {
			elems("literal_slice_of_slices_element", false, ints, intsOf)
			pre = []*N{{K: "let", Ps: []string{cont}, Ns: []*N{{K: "tlist", S: "[]int64", Ns: []*N{ints(), ints()}}}}}
		} else {
			elems("literal_slice_of_slices_element", true, strs, strsOf)
			pre = []*N{{K: "let", Ps: []string{cont}, Ns: []*N{{K: "tlist", S: "[]string", Ns: []*N{strs(), strs()}}}}}
		}
	case 2:
		elems("literal_slice_of_maps_element", false, imap, imapOf)
		pre = []*N{{K: "let", Ps: []string{cont}, Ns: []*N{{K: "tlist", S: "map[string]int64", Ns: []*N{imap(), imap()}}}}}
	default:
		// two of the fields Row ([]int64), Items ([]string) and M (map[string]int64) of hbox
		type fd struct {
			name  string
			str   bool
			fresh func() *N
			wrap  func(*N) *N
		}
		fds := []fd{{"Row", false, ints, intsOf}, {"Items", true, strs, strsOf}, {"M", false, imap, imapOf}}
		a := g.n(0, 2, "dareffield")
		b := (a + g.n(1, 2, "dareffield2")) % 3
		field(0, fds[a].name, fds[a].str, fds[a].fresh, fds[a].wrap)
		field(1, fds[b].name, fds[b].str, fds[b].fresh, fds[b].wrap)
		pre = []*N{slots[0].store(slots[0].fresh()), slots[1].store(slots[1].fresh())}
	}
	return pre, slots
}

// daCalleeOf draws the deferred callee. ints: every argument will be an int (typed Go parameters
// are possible); forSpread: the call will spread a list.
func (g *G) daCalleeOf(k int, ints, forSpread bool) daCallee {
	name := fmt.Sprintf("dv%d", k)
	script := func(class string, nfix int, variadic bool) daCallee {
		var ps []string
		for i := 0; i < nfix; i++ {
			ps = append(ps, fmt.Sprintf("a%d", i+1))
		}
		if variadic {
			ps = append(ps, "x")
		}
		tag := Str(fmt.Sprintf("%s#%d", class, g.id()))
		logArgs := []*N{tag}
		for _, p := range ps {
			logArgs = append(logArgs, Id(p))
		}
		body := []*N{{K: "expr", Ns: []*N{Call("pd", logArgs...)}}, {K: "ret"}}
		lit := &N{K: "fn", Ps: ps, B: variadic, Ss: [][]*N{body}}
		cal := daCallee{class: class, nfix: nfix, variadic: variadic, tag: tag}
		if !g.chance(75) {
			// the callee expression is the function literal itself
			g.feat("defer_args_callee_is_a_function_literal")
			cal.call = func(args []*N, spread bool) *N {
				return &N{K: "acall", Ns: append([]*N{lit}, args...), B: spread}
			}
			return cal
		}
		named := *lit
		named.S = name
		cal.defs = []*N{{K: "expr", Ns: []*N{&named}}}
		cal.call = func(args []*N, spread bool) *N { return &N{K: "call", S: name, Ns: args, B: spread} }
		return cal
	}
	host := func(class, fn string, nfix int, variadic, intsOnly bool) daCallee {
		tag := Str(fmt.Sprintf("%s#%d", class, g.id()))
		return daCallee{class: class, nfix: nfix, variadic: variadic, intsOnly: intsOnly, tag: tag,
			call: func(args []*N, spread bool) *N {
				return &N{K: "call", S: fn, Ns: append([]*N{tag}, args...), B: spread}
			}}
	}
	hi := 11
	for {
		switch g.n(0, hi, "dacallee") {
		case 0, 1, 2:
			return script("script_variadic", 0, true)
		case 3, 4:
			return script("script_fixed_and_variadic", g.n(1, 2, "danfix"), true)
		case 5:
			return script("script_5plus_parameters", g.n(5, 6, "danfix"), false)
		case 6:
			return script("script_5plus_parameters_and_variadic", 5, true)
		case 7:
			return script("script_fixed", g.n(1, 4, "danfix"), false)
		case 8, 9:
			return host("go_variadic", "pd", 0, true, false)
		case 10:
			return host("go_fixed", "pd3", 2, false, false)
		default:
			if ints && !forSpread {
				return host("go_typed_variadic", "pdi", 1, true, true)
			}
			hi = 10 // draw again among the others
		}
	}
}

// deferArgsHeld builds one instance of the pattern.
func (g *G) deferArgsHeld(c *gctx) []*N {
	g.feat("deferred_arguments_read_from_slots_stored_later")
	g.nextFn++
	k := g.nextFn
	fn := fmt.Sprintf("da%d", k)
	pre, slots := g.daSlots(k)
	g.feat("defer_args_slot_" + slots[0].class)
	ints := !slots[0].str && !slots[1].str && !slots[0].ref
	spread := !g.chance(75)
	cal := g.daCalleeOf(k, ints, spread)
	g.feat("defer_args_callee_" + cal.class)
	if slots[0].ref {
		// the tag names the kind of slot as well: these failures are about slices and maps read from a slot
		g.feat("defer_args_slot_holds_a_slice_or_a_map")
		cal.tag.S = strings.Replace(cal.tag.S, "#", "+slot_holds_a_slice_or_a_map#", 1)
	}

	body := append([]*N{}, pre...)
	body = append(body, cal.defs...)

	// a function that stores into slot 0 and returns a value: as a LATER argument of the deferred call it
	// changes the slot an earlier argument was read from
	bump := ""
	// args builds the argument list of one deferred call
	constOf := func(i int) *N { return g.daVal(slots[i%2].str && !slots[i%2].ref && !cal.intsOnly) }
	args := func(n int, needSlotFrom int) []*N {
		out := make([]*N, n)
		hasSlot := false
		for i := range out {
			if g.chance(75) {
				out[i] = slots[g.n(0, 1, "daslotno")].read()
				if i >= needSlotFrom {
					hasSlot = true
				}
			} else {
				out[i] = constOf(i)
			}
		}
		if !hasSlot && n > needSlotFrom {
			out[g.n(needSlotFrom, n-1, "daforce")] = slots[g.n(0, 1, "daslotno")].read()
		}
		return out
	}
	var lst string
	var mkList func() *N
	var mkDefer func() *N
	if spread {
		// defer callee(fixed..., lst...): the name lst is bound to another list afterwards
		g.feat("defer_args_spread_list_name_rebound_later")
		lst = fmt.Sprintf("ds%d", k)
		nlist := g.n(1, 3, "danlist")
		nexp := 0 // arguments written out before the list
		switch {
		case cal.variadic && cal.defs == nil && cal.class == "go_variadic":
			nexp = 0 // the list stands exactly in the variadic position of the Go function
		case cal.variadic:
			nexp = cal.nfix // the list stands exactly in the variadic position (as in Go)
		default:
			if nlist > cal.nfix {
				nlist = cal.nfix
			}
			nexp = cal.nfix - nlist
		}
		mkList = func() *N {
			l := &N{K: "list"}
			typed := ints && g.chance(30)
			if typed {
				g.feat("defer_args_spread_list_is_a_typed_slice")
				l = &N{K: "tlist", S: "int64"}
			}
			for i := 0; i < nlist; i++ {
				if typed {
					l.Ns = append(l.Ns, g.val())
				} else {
					l.Ns = append(l.Ns, constOf(i))
				}
			}
			return l
		}
		body = append(body, &N{K: "let", Ps: []string{lst}, Ns: []*N{mkList()}})
		mkDefer = func() *N {
			a := args(nexp, 0)
			return &N{K: "defer", Ns: []*N{cal.call(append(a, Id(lst)), true)}}
		}
	} else {
		n := cal.nfix
		if cal.variadic {
			n += g.n(1, 3, "danvar")
		}
		needFrom := 0
		if cal.variadic {
			needFrom = cal.nfix // at least one argument of the variadic tail is read from a slot
		}
		if n >= 2 && !g.chance(75) {
			g.feat("defer_args_later_argument_stores_into_the_slot")
			bump = fmt.Sprintf("db%d", k)
			cal.tag.S = strings.Replace(cal.tag.S, "#", "+slot_stored_by_a_later_argument#", 1)
			body = append(body, &N{K: "expr", Ns: []*N{{K: "fn", S: bump, Ss: [][]*N{{
				slots[0].store(g.daNewVal(slots[0])),
				{K: "ret", Ns: []*N{g.daVal(slots[0].str && !slots[0].ref && !cal.intsOnly)}},
			}}}}})
		}
		mkDefer = func() *N {
			a := args(n, needFrom)
			if bump != "" {
				j := g.n(1, n-1, "dabumpat")
				a[j] = Call(bump)
				a[g.n(0, j-1, "dabumpread")] = slots[0].read()
			}
			return &N{K: "defer", Ns: []*N{cal.call(a, false)}}
		}
	}
	storeAll := func() []*N {
		var out []*N
		for i := range slots {
			out = append(out, slots[i].store(g.daNewVal(slots[i])))
		}
		if lst != "" {
			// another list of the same length under the same name
			out = append(out, &N{K: "let", Ps: []string{lst}, Ns: []*N{mkList()}})
		}
		return out
	}

	form := g.n(0, 9, "daform")
	switch {
	case form >= 8:
		// the same defer statement runs in every round of a loop, the slot is stored into at the start
		// of each round: every registration keeps the value of its own round
		g.feat("defer_args_form_defer_in_a_loop")
		items := &N{K: "list"}
		for i := g.n(2, 3, "darounds"); i > 0; i-- {
			items.Ns = append(items.Ns, g.daVal(slots[0].str))
		}
		z := fmt.Sprintf("dz%d", k)
		var fromZ *N = Id(z)
		if slots[0].wrap != nil {
			fromZ = slots[0].wrap(Id(z))
		}
		body = append(body, &N{K: "forin", Ps: []string{z}, Ns: []*N{items}, Ss: [][]*N{{
			slots[0].store(fromZ),
			mkDefer(),
		}}})
		body = append(body, storeAll()...)
	default:
		body = append(body, mkDefer())
		body = append(body, storeAll()...)
		if !g.chance(65) {
			// registered later, runs first, and has the values of ITS defer statement
			g.feat("defer_args_second_defer_of_the_same_callee")
			body = append(body, mkDefer())
			body = append(body, storeAll()...)
		}
	}
	if form == 6 || form == 7 {
		// in line: the deferred calls belong to the invocation (or the top level) the pattern stands in
		g.feat("defer_args_form_in_line")
		return body
	}
	if form < 6 {
		g.feat("defer_args_form_function")
	}
	switch g.n(0, 3, "daexit") {
	case 3:
		g.feat("defer_args_exit_by_error")
		body = append(body, &N{K: "throw", Ns: []*N{Str(fmt.Sprintf("T%d", g.id()))}})
		return []*N{
			{K: "expr", Ns: []*N{{K: "fn", S: fn, Ss: [][]*N{body}}}},
			{K: "try", S: "e", Ss: [][]*N{{{K: "expr", Ns: []*N{P1(g.id(), Call(fn))}}}, {{K: "expr", Ns: []*N{P1(g.id(), Id("e"))}}}}},
		}
	case 0:
		g.feat("defer_args_exit_by_plain_return")
		body = append(body, &N{K: "ret"})
	default:
		g.feat("defer_args_exit_by_return_of_the_slot")
		body = append(body, &N{K: "ret", Ns: []*N{slots[g.n(0, 1, "daslotno")].read()}})
	}
	return []*N{
		{K: "expr", Ns: []*N{{K: "fn", S: fn, Ss: [][]*N{body}}}},
		{K: "expr", Ns: []*N{P1(g.id(), Call(fn))}},
	}
}

// DeferArgsDiff looks at the first entry in which the trace of the run differs from the model's: when
// both entries come from the SAME deferred-argument probe (same tag) and differ in the values logged,
// it returns the callee class of the tag - the call ran where it had to, with other arguments than the
// ones evaluated at its defer statement.
func DeferArgsDiff(v *Verdict) (class string, ok bool) {
	if v == nil || v.Out == nil {
		return "", false
	}
	want, got := canonTrace(v.Out.Trace), canonTrace(v.GotTrace)
	i, same := MatchTrace(want, got)
	if same || i >= len(want) || i >= len(got) {
		return "", false
	}
	tagOf := func(e string) string {
		if !strings.HasPrefix(e, `pd s:"`) {
			return ""
		}
		rest := e[len(`pd s:"`):]
		j := strings.IndexByte(rest, '"')
		if j < 0 {
			return ""
		}
		return rest[:j]
	}
	tw, tg := tagOf(want[i]), tagOf(got[i])
	if tw == "" || tw != tg {
		return "", false
	}
	if j := strings.IndexByte(tw, '#'); j > 0 {
		return tw[:j], true
	}
	return "", false
}
