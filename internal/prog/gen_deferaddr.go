package prog

import "fmt"

// Pattern of the profile flag ErrOps (C09): a deferred call of a Go function that is handed the ADDRESS
// of a variable - `defer gset(&x, v)`, gset being a Go func(p *int64, v int64) { *p = v } - in an
// invocation whose result is looked at. "Deferred calls do not alter the invocation's result": the
// function returns what its return statement evaluated (a constant, the variable, an expression of
// the variable, a list), whatever the Go function stores through the pointer when it runs at the exit;
// in line, the result of the enclosing invocation (at top level: the value of the program) is what it
// would be without the statements.
//
// The variable is a fresh name that nothing reads after the deferred call has run: whether the store
// reaches the variable is stated nowhere (the model does not follow it). The result is logged through
// pd under a tag that starts with "result:" (see ResultTag); other deferred calls (a probe, a function
// literal that returns a value of its own, a probe of the variable's value at ITS defer statement)
// stand before, between and after the Go calls.

// ResultTagPrefix starts the tag of a pd probe that logs the result of an invocation some deferred
// call could have altered.
const ResultTagPrefix = "result:"

func (g *G) deferAddrWrite(c *gctx) []*N {
	g.feat("deferred_go_call_gets_the_address_of_a_variable")
	g.nextFn++
	k := g.nextFn
	fn := fmt.Sprintf("dq%d", k)
	x, y := fmt.Sprintf("dqx%d", k), fmt.Sprintf("dqy%d", k)

	var body []*N
	bind := "var"
	if g.chance(40) {
		bind = "let"
	}
	body = append(body, &N{K: bind, Ps: []string{x}, Ns: []*N{g.val()}})
	two := g.chance(35)
	if two {
		g.feat("defer_addr_two_variables")
		body = append(body, &N{K: "var", Ps: []string{y}, Ns: []*N{g.val()}})
	}
	// the deferred calls, in the order of their defer statements
	other := func() *N {
		switch g.n(0, 2, "dqother") {
		case 0:
			g.feat("defer_addr_with_a_deferred_probe")
			return &N{K: "defer", Ns: []*N{P1(g.id(), g.val())}}
		case 1:
			// a script function literal that yields a value of its own
			g.feat("defer_addr_with_a_deferred_function_literal_returning_a_value")
			return &N{K: "defer", Ns: []*N{{K: "acall", Ns: []*N{{K: "fn", Ss: [][]*N{{
				{K: "expr", Ns: []*N{P1(g.id(), g.val())}},
				{K: "ret", Ns: []*N{g.val()}},
			}}}}}}}
		default:
			// the variable's value at this defer statement (no deferred call has run yet)
			g.feat("defer_addr_with_a_deferred_probe_of_the_variable")
			return &N{K: "defer", Ns: []*N{P1(g.id(), Id(x))}}
		}
	}
	gset := func(name string) *N {
		return &N{K: "defer", Ns: []*N{Call("gset", &N{K: "addr", Ns: []*N{Id(name)}}, g.val())}}
	}
	if g.chance(40) {
		body = append(body, other())
	}
	body = append(body, gset(x))
	if g.chance(40) {
		body = append(body, other())
	}
	if two {
		body = append(body, gset(y))
	} else if g.chance(25) {
		g.feat("defer_addr_two_calls_on_one_variable")
		body = append(body, gset(x))
	}
	if g.chance(30) {
		// the variable is assigned by the body after the defer statement: the result has that value
		g.feat("defer_addr_variable_assigned_by_the_body_afterwards")
		body = append(body, &N{K: "let", Ps: []string{x}, Ns: []*N{g.val()}})
	}

	if !g.chance(70) {
		// in line: the deferred calls belong to the invocation (or the top level) the pattern stands in,
		// whose result is compared wherever the program looks at it
		g.feat("defer_addr_form_in_line")
		return body
	}
	g.feat("defer_addr_form_function")

	if !g.chance(85) {
		// the comparison class: the invocation fails, there is no result
		g.feat("defer_addr_exit_by_error")
		body = append(body, &N{K: "throw", Ns: []*N{Str(fmt.Sprintf("T%d", g.id()))}})
		return []*N{
			{K: "expr", Ns: []*N{{K: "fn", S: fn, Ss: [][]*N{body}}}},
			{K: "try", S: "e", Ss: [][]*N{{{K: "expr", Ns: []*N{P1(g.id(), Call(fn))}}}, {{K: "expr", Ns: []*N{P1(g.id(), Id("e"))}}}}},
		}
	}
	var ret *N
	var kind string
	switch g.n(0, 4, "dqret") {
	case 0:
		kind, ret = "returned_constant", &N{K: "ret", Ns: []*N{g.val()}}
	case 1:
		kind, ret = "returned_the_variable", &N{K: "ret", Ns: []*N{Id(x)}}
	case 2:
		kind, ret = "returned_expression_of_the_variable", &N{K: "ret", Ns: []*N{Bin("+", Id(x), g.val())}}
	case 3:
		kind = "returned_list"
		second := g.val()
		if two {
			second = Id(y)
		}
		if g.chance(50) {
			ret = &N{K: "ret", Ns: []*N{{K: "list", Ns: []*N{Id(x), second}}}}
		} else {
			ret = &N{K: "ret", Ns: []*N{Id(x), second}}
		}
	default:
		kind, ret = "returned_nothing", &N{K: "ret"}
	}
	g.feat("defer_addr_" + kind)
	switch g.n(0, 2, "dqnest") {
	case 0:
		body = append(body, ret)
	case 1:
		g.feat("defer_addr_return_inside_if")
		body = append(body, &N{K: "if", Ns: []*N{Bin("<", Int(1), Int(2))}, Ss: [][]*N{{ret}}}, &N{K: "ret", Ns: []*N{Str("end")}})
	default:
		g.feat("defer_addr_return_inside_catch")
		body = append(body, &N{K: "try", Ss: [][]*N{{{K: "throw", Ns: []*N{Str("E")}}}, {ret}}}, &N{K: "ret", Ns: []*N{Str("end")}})
	}
	tag := Str(fmt.Sprintf("%sdeferred_go_call_with_address_argument+%s#%d", ResultTagPrefix, kind, g.id()))
	out := []*N{{K: "expr", Ns: []*N{{K: "fn", S: fn, Ss: [][]*N{body}}}}}
	switch g.n(0, 2, "dquse") {
	case 0:
		out = append(out, &N{K: "expr", Ns: []*N{Call("pd", tag, Call(fn))}})
	case 1:
		g.feat("defer_addr_result_bound_to_a_name")
		rx := fmt.Sprintf("dqr%d", k)
		out = append(out, &N{K: "let", Ps: []string{rx}, Ns: []*N{Call(fn)}}, &N{K: "expr", Ns: []*N{Call("pd", tag, Id(rx))}})
	default:
		// the result is an argument among others
		g.feat("defer_addr_result_among_other_arguments")
		out = append(out, &N{K: "expr", Ns: []*N{Call("pd", tag, g.val(), Call(fn), g.val())}})
	}
	return out
}
