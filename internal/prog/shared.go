package prog

import (
	"context"
	"fmt"
	"runtime"
	"runtime/debug"
	"sync"
	"sync/atomic"
	"time"

	"github.com/mattn/anko/ast"
	"github.com/mattn/anko/parser"
	"github.com/mattn/anko/vm"

	"verif/internal/ank"
)

// ---- one parsed tree evaluated by several goroutines at the same time (C07 sub-check `sametree`) ----
//
// The program text is parsed ONCE; every run evaluates that one tree in a fresh host environment of
// its own (own probe log, own variables, own host values), so the runs share nothing a script can
// name. Every run is judged on its own against the model, exactly as Judge judges a solitary run.
// A statement {K: "setup", S: "meet()"} in the program is a meeting point: the runs that are under
// way at the same time wait there for each other (a spinning barrier), so that they enter the
// following statement within a few instructions of each other. For a solitary run meet() does nothing.

// SharedVerdict is the result of JudgeShared.
type SharedVerdict struct {
	Src      string
	Excluded string
	Out      *Outcome
	OK       bool
	// Phase of the run that differed: "first" (one solitary run before the simultaneous ones, only
	// when warm), "together" (one of the simultaneous runs), "afterwards" (one solitary run after them)
	Phase    string
	Worker   int // index of the simultaneous run that differed
	Clause   string
	Detail   string
	GotTrace []string
	// Met: number of meeting points all simultaneous runs reached together
	Met int
}

// spinBarrier lets n goroutines meet repeatedly. It never blocks for good: a goroutine that has
// waited longer than the patience, or a run that has ended, opens the barrier for everybody (the runs
// then simply go on without meeting: less overlap, never a different result).
type spinBarrier struct {
	n      int32
	count  int32
	gen    int32
	broken int32
}

func (b *spinBarrier) open() { atomic.StoreInt32(&b.broken, 1) }

func (b *spinBarrier) wait() {
	if atomic.LoadInt32(&b.broken) != 0 {
		return
	}
	g := atomic.LoadInt32(&b.gen)
	if atomic.AddInt32(&b.count, 1) == b.n {
		atomic.StoreInt32(&b.count, 0)
		atomic.AddInt32(&b.gen, 1)
		return
	}
	var start time.Time
	for spins := 0; atomic.LoadInt32(&b.gen) == g; spins++ {
		if atomic.LoadInt32(&b.broken) != 0 {
			return
		}
		if spins < 4000 {
			continue
		}
		if spins == 4000 {
			start = time.Now()
		}
		runtime.Gosched()
		if spins%256 == 0 && time.Since(start) > 50*time.Millisecond {
			b.open()
			return
		}
	}
}

type sharedRun struct {
	host     *Host
	val      interface{}
	err      error
	timedOut bool
}

func runTree(stmt ast.Stmt, host *Host, d time.Duration) (r sharedRun) {
	r.host = host
	ctx, cancel := context.WithTimeout(context.Background(), d)
	defer cancel()
	func() {
		defer func() {
			if p := recover(); p != nil {
				r.val = nil
				r.err = &ank.HostPanic{Value: p, Stack: string(debug.Stack())}
			}
		}()
		r.val, r.err = vm.RunContext(ctx, host.Env, nil, stmt)
	}()
	r.timedOut = ctx.Err() != nil && r.err != nil
	return r
}

// JudgeShared parses the program once and runs the one tree `workers` times at the same time (after
// one solitary run when warm), then once more alone; every run must be what the model says.
func JudgeShared(stmts []*N, workers int, warm bool) *SharedVerdict {
	v := &SharedVerdict{Src: Print(stmts)}
	base := Run(stmts, Cfg{}, ModelBudget)
	v.Out = base
	if base.Unspecified != "" {
		v.Excluded = base.Unspecified
		return v
	}
	stmt, err := parser.ParseSrc(v.Src)
	if err != nil {
		v.Excluded = "generator produced unparseable text (harness problem): " + err.Error()
		return v
	}
	newHost := func(meet func()) *Host {
		h := NewHostFor(v.Src)
		h.Env.Define("meet", meet)
		return h
	}
	judge := func(r sharedRun, phase string, w int) bool {
		if r.timedOut {
			// every generated program is tiny: a run that is still going after 20 s does not end
			v.Phase, v.Worker, v.Clause = phase, w, "no-termination"
			v.GotTrace = r.host.Trace
			v.Detail = "the run was still going after 20 s"
			return false
		}
		if hp, ok := ank.IsHostPanic(r.err); ok {
			v.Phase, v.Worker, v.Clause = phase, w, "host-panic"
			v.GotTrace = r.host.Trace
			v.Detail = fmt.Sprintf("escaped panic: %v", hp.Value)
			return false
		}
		gotTrace := canonTrace(r.host.Trace)
		var firstClause, firstDetail, unspecUnder string
		for i, cfg := range AllCfgs() {
			out := base
			if i > 0 {
				out = Run(stmts, cfg, ModelBudget)
				if out.Unspecified != "" {
					unspecUnder = out.Unspecified
					continue
				}
			}
			clause, detail := compare(out, gotTrace, r.val, r.err, r.host)
			if clause == "" {
				return true
			}
			if i == 0 {
				firstClause, firstDetail = clause, detail
			}
		}
		if unspecUnder != "" {
			v.Excluded = "under an admitted reading of the under-specified choices: " + unspecUnder
			return false
		}
		v.Phase, v.Worker, v.Clause, v.Detail = phase, w, firstClause, firstDetail
		v.GotTrace = r.host.Trace
		return false
	}
	const patience = 20 * time.Second
	if warm {
		if !judge(runTree(stmt, newHost(func() {}), patience), "first", 0) {
			return v
		}
	}
	bar := &spinBarrier{n: int32(workers)}
	runs := make([]sharedRun, workers)
	var wg sync.WaitGroup
	for w := 0; w < workers; w++ {
		wg.Add(1)
		host := newHost(bar.wait)
		go func(w int, host *Host) {
			defer wg.Done()
			defer bar.open() // a run that has ended waits for nobody any more
			bar.wait()       // all runs leave this line together
			runs[w] = runTree(stmt, host, patience)
		}(w, host)
	}
	wg.Wait()
	// completed meetings, without the one before the start
	if v.Met = int(atomic.LoadInt32(&bar.gen)) - 1; v.Met < 0 {
		v.Met = 0
	}
	for w := range runs {
		if !judge(runs[w], "together", w) {
			return v
		}
	}
	if !judge(runTree(stmt, newHost(func() {}), patience), "afterwards", 0) {
		return v
	}
	v.OK = true
	return v
}

// ---- the same through `go`: one script function called by several goroutines of one script ----
//
// The program becomes the body of ONE script function work(p, pfail); a script starts it `workers`
// times with `go`, every call with probe functions of its own (so every call has its own log) and all
// in one environment. The body binds every name it uses before it reads it, so the calls share
// nothing but the function. What a call does is what the program does when it is run on its own: the
// same statements in the same order (a deferred call runs when the body ends, as it does at the end
// of a program). Observed per call: the probe log, the value handed to fin, or that the call failed.

type goCall struct {
	mu    sync.Mutex
	trace []string
	val   interface{}
	fin   bool
	err   interface{}
	bad   bool
}

// defineProbes binds p<k> and pf<k>: the probes of NewHost, writing to the log of call k.
func defineProbes(h *Host, k int, c *goCall) {
	h.Env.Define(fmt.Sprintf("p%d", k), func(args ...interface{}) interface{} {
		c.mu.Lock()
		defer c.mu.Unlock()
		if len(args) == 0 {
			c.trace = append(c.trace, "p")
			return nil
		}
		if len(args) > 1 {
			c.trace = append(c.trace, "p "+RenderGo(args[0])+" "+RenderGo(args[1]))
			return args[1]
		}
		c.trace = append(c.trace, "p "+RenderGo(args[0]))
		return args[0]
	})
	h.Env.Define(fmt.Sprintf("pf%d", k), func(id interface{}) interface{} {
		c.mu.Lock()
		c.trace = append(c.trace, "pfail "+RenderGo(id))
		c.mu.Unlock()
		if n, ok := id.(int64); ok && n%2 == 1 {
			panic(fmt.Errorf("pfail"))
		}
		panic("pfail")
	})
}

// JudgeSharedGo is JudgeShared with the simultaneous runs started by `go` statements of one script.
func JudgeSharedGo(stmts []*N, workers int, warm bool) *SharedVerdict {
	body := Print(stmts)
	def := "work = func(p, pfail) {\n" + body + "}\n"
	call := func(k int) string {
		return fmt.Sprintf("try { fin(%d, work(p%d, pf%d)) } catch e { bad(%d, e) }", k, k, k, k)
	}
	launch := ""
	for k := 0; k < workers; k++ {
		launch += "go (func() { " + call(k) + "; done() })()\n"
	}
	v := &SharedVerdict{Src: def + launch}
	base := Run(stmts, Cfg{}, ModelBudget)
	v.Out = base
	if base.Unspecified != "" {
		v.Excluded = base.Unspecified
		return v
	}
	host := NewHostFor(body)
	calls := make([]*goCall, workers+2)
	for k := range calls {
		calls[k] = &goCall{}
		defineProbes(host, k, calls[k])
	}
	bar := &spinBarrier{n: int32(workers)}
	var solo int32 = 1
	var wg sync.WaitGroup
	host.Env.Define("meet", func() {
		if atomic.LoadInt32(&solo) == 0 {
			bar.wait()
		}
	})
	host.Env.Define("fin", func(k int64, val interface{}) {
		c := calls[k]
		c.mu.Lock()
		c.val, c.fin = val, true
		c.mu.Unlock()
	})
	host.Env.Define("bad", func(k int64, e interface{}) {
		c := calls[k]
		c.mu.Lock()
		c.err, c.bad = e, true
		c.mu.Unlock()
	})
	host.Env.Define("done", func() {
		bar.open() // a call that has ended waits for nobody any more
		wg.Done()
	})
	const patience = 20 * time.Second
	// exec runs a piece of script text in the one environment; false: it did not do what the harness
	// wrote it to do (reported as such, never judged as a call of work)
	exec := func(src, what string) bool {
		_, err, timedOut := host.ExecTimeout(src, patience)
		if timedOut {
			v.Phase, v.Clause, v.Detail = what, "no-termination", "the script was still going after 20 s"
			return false
		}
		if hp, ok := ank.IsHostPanic(err); ok {
			v.Phase, v.Clause, v.Detail = what, "host-panic", fmt.Sprintf("escaped panic: %v", hp.Value)
			return false
		}
		if err != nil {
			v.Excluded = "harness problem: the script that " + what + " failed: " + err.Error()
			return false
		}
		return true
	}
	judge := func(k int, phase string, w int) bool {
		c := calls[k]
		c.mu.Lock()
		defer c.mu.Unlock()
		var err error
		if c.bad {
			err = fmt.Errorf("%v", c.err)
		} else if !c.fin {
			v.Phase, v.Worker, v.Clause = phase, w, "call-never-came-back"
			v.GotTrace = c.trace
			v.Detail = fmt.Sprintf("the call of work neither returned a value nor failed (probe log: %v)", c.trace)
			return false
		}
		gotTrace := canonTrace(c.trace)
		var firstClause, firstDetail, unspecUnder string
		for i, cfg := range AllCfgs() {
			out := base
			if i > 0 {
				out = Run(stmts, cfg, ModelBudget)
				if out.Unspecified != "" {
					unspecUnder = out.Unspecified
					continue
				}
			}
			clause, detail := compare(out, gotTrace, c.val, err, nil)
			if clause == "" {
				return true
			}
			if i == 0 {
				firstClause, firstDetail = clause, detail
			}
		}
		if unspecUnder != "" {
			v.Excluded = "under an admitted reading of the under-specified choices: " + unspecUnder
			return false
		}
		v.Phase, v.Worker, v.Clause, v.Detail = phase, w, firstClause, firstDetail
		v.GotTrace = c.trace
		return false
	}
	if !exec(def, "defines work") {
		return v
	}
	if warm {
		if !exec(call(workers), "first") || !judge(workers, "first", 0) {
			return v
		}
	}
	atomic.StoreInt32(&solo, 0)
	wg.Add(workers)
	// the calls started by go run under the context of the script that started them: it stays open
	// until they have ended
	ctx, cancel := context.WithTimeout(context.Background(), patience)
	defer cancel()
	if _, err := ank.ExecCtx(ctx, host.Env, launch); err != nil {
		if hp, ok := ank.IsHostPanic(err); ok {
			v.Phase, v.Clause, v.Detail = "together", "host-panic", fmt.Sprintf("escaped panic: %v", hp.Value)
			return v
		}
		v.Excluded = "harness problem: the script that starts the calls failed: " + err.Error()
		return v
	}
	joined := make(chan struct{})
	go func() { wg.Wait(); close(joined) }()
	select {
	case <-joined:
	case <-time.After(patience):
		v.Phase, v.Clause, v.Detail = "together", "no-termination", "not every call started with go had ended after 20 s"
		return v
	}
	atomic.StoreInt32(&solo, 1)
	if v.Met = int(atomic.LoadInt32(&bar.gen)); v.Met < 0 {
		v.Met = 0
	}
	for w := 0; w < workers; w++ {
		if !judge(w, "together", w) {
			return v
		}
	}
	if !exec(call(workers+1), "afterwards") || !judge(workers+1, "afterwards", 0) {
		return v
	}
	v.OK = true
	return v
}
