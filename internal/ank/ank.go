// Package ank wraps execution of anko source for the property checks.
package ank

import (
	"context"
	"fmt"
	"math"
	"reflect"
	"runtime/debug"
	"strings"

	"github.com/mattn/anko/env"
	"github.com/mattn/anko/vm"
)

// HostPanic is returned (as error) when a Go panic escaped from the interpreter
// into the calling goroutine.
type HostPanic struct {
	Value interface{}
	Stack string
}

func (p *HostPanic) Error() string { return fmt.Sprintf("HOST PANIC: %v", p.Value) }

// IsHostPanic reports whether err is an escaped panic.
func IsHostPanic(err error) (*HostPanic, bool) {
	hp, ok := err.(*HostPanic)
	return hp, ok
}

// Exec runs src in e in non-debug mode, converting an escaping panic into *HostPanic.
func Exec(e *env.Env, src string) (v interface{}, err error) {
	return ExecCtx(context.Background(), e, src)
}

// ExecCtx is Exec with a context.
func ExecCtx(ctx context.Context, e *env.Env, src string) (v interface{}, err error) {
	defer func() {
		if r := recover(); r != nil {
			v = nil
			err = &HostPanic{Value: r, Stack: string(debug.Stack())}
		}
	}()
	return vm.ExecuteContext(ctx, e, nil, src)
}

// NormPanic normalises a panic message for use in a signature.
func NormPanic(v interface{}) string {
	s := fmt.Sprint(v)
	// strip addresses and long numbers
	var b strings.Builder
	digits := 0
	for _, r := range s {
		if r >= '0' && r <= '9' {
			digits++
			if digits > 3 {
				continue
			}
		} else {
			digits = 0
		}
		b.WriteRune(r)
	}
	s = b.String()
	if len(s) > 120 {
		s = s[:120]
	}
	return s
}

// Describe renders a Go value returned by anko with its dynamic type, in a form that
// is stable and distinguishes int64(1) from float64(1).
func Describe(v interface{}) string {
	return describe(reflect.ValueOf(v), 0)
}

func describe(rv reflect.Value, depth int) string {
	if !rv.IsValid() {
		return "nil"
	}
	if depth > 6 {
		return "…"
	}
	switch rv.Kind() {
	case reflect.Interface:
		if rv.IsNil() {
			return "nil"
		}
		return describe(rv.Elem(), depth)
	case reflect.Float64, reflect.Float32:
		f := rv.Float()
		if math.IsNaN(f) {
			return rv.Type().String() + "(NaN)"
		}
		return fmt.Sprintf("%s(%v|%x)", rv.Type(), f, math.Float64bits(f))
	case reflect.Slice, reflect.Array:
		if rv.Kind() == reflect.Slice && rv.IsNil() {
			return rv.Type().String() + "(nil)"
		}
		var b strings.Builder
		b.WriteString(rv.Type().String())
		b.WriteString("[")
		for i := 0; i < rv.Len(); i++ {
			if i > 0 {
				b.WriteString(", ")
			}
			b.WriteString(describe(rv.Index(i), depth+1))
		}
		b.WriteString("]")
		return b.String()
	case reflect.Map:
		if rv.IsNil() {
			return rv.Type().String() + "(nil)"
		}
		keys := rv.MapKeys()
		parts := make([]string, 0, len(keys))
		for _, k := range keys {
			parts = append(parts, describe(k, depth+1)+": "+describe(rv.MapIndex(k), depth+1))
		}
		sortStrings(parts)
		return rv.Type().String() + "{" + strings.Join(parts, ", ") + "}"
	case reflect.Ptr:
		if rv.IsNil() {
			return rv.Type().String() + "(nil)"
		}
		if _, ok := rv.Interface().(*env.Env); ok {
			return "*env.Env"
		}
		return "&" + describe(rv.Elem(), depth+1)
	case reflect.Func:
		return "func:" + rv.Type().String()
	case reflect.Chan:
		return "chan:" + rv.Type().String()
	case reflect.Struct:
		var b strings.Builder
		b.WriteString(rv.Type().String())
		b.WriteString("{")
		for i := 0; i < rv.NumField(); i++ {
			if i > 0 {
				b.WriteString(", ")
			}
			b.WriteString(rv.Type().Field(i).Name + ":")
			if rv.Field(i).CanInterface() {
				b.WriteString(describe(rv.Field(i), depth+1))
			} else {
				b.WriteString("?")
			}
		}
		b.WriteString("}")
		return b.String()
	case reflect.String:
		return fmt.Sprintf("%s(%q)", rv.Type(), rv.String())
	default:
		if rv.CanInterface() {
			return fmt.Sprintf("%s(%v)", rv.Type(), rv.Interface())
		}
		return rv.Type().String() + "(?)"
	}
}

func sortStrings(a []string) {
	for i := 1; i < len(a); i++ {
		for j := i; j > 0 && a[j] < a[j-1]; j-- {
			a[j], a[j-1] = a[j-1], a[j]
		}
	}
}
