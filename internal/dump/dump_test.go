package dump

import (
	"fmt"
	"testing"

	"github.com/mattn/anko/parser"
)

func TestDumpSmoke(t *testing.T) {
	src := "a = (1 + 2) * f(x, 3.5)\nfor i in [1] { delete(m, \"k\") }\nswitch a { case 1, 2: b = 1 }"
	st, err := parser.ParseSrc(src)
	if err != nil {
		t.Fatal(err)
	}
	fmt.Println(Dump(st, Opts{Positions: true}))
	fmt.Println(Dump(st, Opts{SkipParen: true}))
	for _, n := range Nodes(st) {
		fmt.Printf("%s(%p) <- %T\n", n.Kind, n.Ptr, n.Parent)
	}
}
