// Package dump renders anko ast trees structurally (by reflection, so that new node
// kinds or fields are covered automatically) and enumerates their nodes.
package dump

import (
	"fmt"
	"reflect"
	"strings"

	"github.com/mattn/anko/ast"
)

// Opts controls the rendering.
type Opts struct {
	Positions bool // include @line:col of every node
	LineShift int  // added to every line > 0 (nodes that never got a position keep 0:0)
	SkipParen bool // render ParenExpr as its sub-expression
}

var (
	posType   = reflect.TypeOf(ast.Position{})
	valueType = reflect.TypeOf(reflect.Value{})
	parenType = reflect.TypeOf(&ast.ParenExpr{})
)

// MaxBytes bounds a rendering. The parser shares sub-trees (`x--` stands for `x = x - 1` with ONE node
// for both x), so a parsed "tree" can be a graph whose rendering as a tree is exponentially longer than
// its source (`x` followed by n times `--` has 2^n leaves). A rendering that reaches the bound stops
// there and ends in "<truncated>": the traversal order is fixed, so two renderings of equal trees are
// still equal, and a difference within the first MaxBytes is still seen.
const MaxBytes = 4 << 20

// Dump renders a statement (or expression / operator) tree.
func Dump(n interface{}, o Opts) string {
	var b strings.Builder
	dumpValue(&b, reflect.ValueOf(n), o, 0)
	if b.Len() >= MaxBytes {
		b.WriteString("<truncated>")
	}
	return b.String()
}

func dumpValue(b *strings.Builder, v reflect.Value, o Opts, depth int) {
	if b.Len() >= MaxBytes {
		return
	}
	if depth > 10000 {
		b.WriteString("<too deep>")
		return
	}
	if !v.IsValid() {
		b.WriteString("nil")
		return
	}
	switch v.Kind() {
	case reflect.Interface:
		if v.IsNil() {
			b.WriteString("nil")
			return
		}
		dumpValue(b, v.Elem(), o, depth)
	case reflect.Ptr:
		if v.IsNil() {
			b.WriteString("nil")
			return
		}
		if o.SkipParen && v.Type() == parenType {
			dumpValue(b, v.Elem().FieldByName("SubExpr"), o, depth)
			return
		}
		b.WriteString(v.Elem().Type().Name())
		dumpStruct(b, v.Elem(), o, depth)
	case reflect.Struct:
		if v.Type() == valueType {
			dumpReflectValue(b, v)
			return
		}
		if v.Type() == posType {
			if o.Positions {
				line := int(v.FieldByName("Line").Int())
				col := int(v.FieldByName("Column").Int())
				if line > 0 {
					line += o.LineShift
				}
				fmt.Fprintf(b, "@%d:%d", line, col)
			}
			return
		}
		dumpStruct(b, v, o, depth)
	case reflect.Slice:
		b.WriteString("[")
		for i := 0; i < v.Len(); i++ {
			if i > 0 {
				b.WriteString(" ")
			}
			dumpValue(b, v.Index(i), o, depth+1)
		}
		b.WriteString("]")
	case reflect.String:
		fmt.Fprintf(b, "%q", v.String())
	case reflect.Bool:
		fmt.Fprintf(b, "%v", v.Bool())
	case reflect.Int, reflect.Int8, reflect.Int16, reflect.Int32, reflect.Int64:
		fmt.Fprintf(b, "%d", v.Int())
	default:
		fmt.Fprintf(b, "<%s>", v.Kind())
	}
}

func dumpStruct(b *strings.Builder, v reflect.Value, o Opts, depth int) {
	b.WriteString("{")
	first := true
	for i := 0; i < v.NumField(); i++ {
		f := v.Field(i)
		ft := v.Type().Field(i)
		if ft.Anonymous {
			// ExprImpl / StmtImpl / OperatorImpl / PosImpl: only the position matters
			var pb strings.Builder
			dumpValue(&pb, f, o, depth+1)
			s := strings.Trim(pb.String(), "{}")
			if s != "" {
				if !first {
					b.WriteString(" ")
				}
				b.WriteString(s)
				first = false
			}
			continue
		}
		if !first {
			b.WriteString(" ")
		}
		first = false
		if f.Type() != posType {
			b.WriteString(ft.Name + ":")
		}
		dumpValue(b, f, o, depth+1)
	}
	b.WriteString("}")
}

// dumpReflectValue renders LiteralExpr.Literal / CallExpr.Func.
func dumpReflectValue(b *strings.Builder, v reflect.Value) {
	// v is a reflect.Value holding a reflect.Value struct; it may come from an
	// exported field, so Interface works.
	if !v.CanInterface() {
		b.WriteString("<unreadable>")
		return
	}
	inner := v.Interface().(reflect.Value)
	if !inner.IsValid() {
		b.WriteString("invalid")
		return
	}
	switch inner.Kind() {
	case reflect.Interface, reflect.Ptr, reflect.Map, reflect.Slice, reflect.Func, reflect.Chan:
		if inner.IsNil() {
			b.WriteString("nil:" + inner.Type().String())
			return
		}
	}
	if inner.Kind() == reflect.Func {
		b.WriteString("func:" + inner.Type().String())
		return
	}
	if inner.Kind() == reflect.Float64 {
		fmt.Fprintf(b, "%s:%x", inner.Type(), inner.Float())
		return
	}
	fmt.Fprintf(b, "%s:%#v", inner.Type(), inner.Interface())
}

// Node is one ast node found by reflection.
type Node struct {
	Ptr     interface{}   // the node (pointer)
	Parent  interface{}   // nearest enclosing node at its first occurrence (nil for the root)
	Parents []interface{} // every enclosing node: a node object can occur several times (the parser shares the literal `1` of all ++/-- expressions)
	Kind    string
}

var (
	stmtType = reflect.TypeOf((*ast.Stmt)(nil)).Elem()
	exprType = reflect.TypeOf((*ast.Expr)(nil)).Elem()
	opType   = reflect.TypeOf((*ast.Operator)(nil)).Elem()
)

// Nodes enumerates every value reachable from root through fields and slices that is a
// non-nil pointer implementing ast.Stmt / ast.Expr / ast.Operator (all three are
// ast.Pos), in pre-order, with its reflective parent.
func Nodes(root interface{}) []Node {
	var out []Node
	seen := map[interface{}]bool{}
	var walk func(v reflect.Value, parent interface{})
	walk = func(v reflect.Value, parent interface{}) {
		if !v.IsValid() {
			return
		}
		switch v.Kind() {
		case reflect.Interface:
			if !v.IsNil() {
				walk(v.Elem(), parent)
			}
		case reflect.Ptr:
			if v.IsNil() {
				return
			}
			self := parent
			if v.Type().Implements(stmtType) && v.Elem().Kind() == reflect.Struct && v.CanInterface() {
				p := v.Interface()
				if seen[p] {
					for i := range out {
						if out[i].Ptr == p {
							out[i].Parents = append(out[i].Parents, parent)
						}
					}
					return
				}
				seen[p] = true
				out = append(out, Node{Ptr: p, Parent: parent, Parents: []interface{}{parent}, Kind: v.Elem().Type().Name()})
				self = p
			}
			walk(v.Elem(), self)
		case reflect.Struct:
			if v.Type() == valueType || v.Type() == posType {
				return
			}
			for i := 0; i < v.NumField(); i++ {
				if v.Type().Field(i).PkgPath != "" && !v.Type().Field(i).Anonymous {
					continue // unexported
				}
				walk(v.Field(i), parent)
			}
		case reflect.Slice:
			for i := 0; i < v.Len(); i++ {
				walk(v.Index(i), parent)
			}
		}
	}
	walk(reflect.ValueOf(root), nil)
	return out
}
