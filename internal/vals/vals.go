// Package vals is the value universe: edge-heavy pools of int64, float64 and
// string values together with their anko source spelling.
package vals

import (
	"math"
	"strconv"
	"strings"

	"pgregory.net/rapid"
)

// IntPool are the int64 edge values named by C05 (cache boundaries -2..4097,
// 2^31, 2^53, 2^63 edges).
var IntPool = []int64{
	0, 1, -1, 2, -2, -3, 3, 7, 10, 63, 64, 65, 100, 255, 256,
	4094, 4095, 4096, 4097, -4095, -4096,
	1<<31 - 1, 1 << 31, 1<<31 + 1, -(1 << 31), -(1 << 31) - 1, -(1 << 31) + 1,
	1<<32 - 1, 1 << 32, 1<<32 + 1,
	1<<53 - 1, 1 << 53, 1<<53 + 1, 1<<53 + 2, -(1 << 53), -(1 << 53) - 1, -(1 << 53) + 1,
	999999, 1000000, 1000001, 123456789012,
	math.MaxInt64, math.MaxInt64 - 1, math.MinInt64, math.MinInt64 + 1,
	1 << 62, -(1 << 62), 1<<62 + 1,
}

// FloatPool are float64 edge values (NaN excluded; added explicitly where allowed).
var FloatPool = []float64{
	0, math.Copysign(0, -1), 0.5, -0.5, 1, -1, 1.5, 2, 2.7, -2.7, 3.9999, 4095, 4096, 4095.5,
	1e6, 1e7, 999999.5, 1e15, 1e20, 1e21, 1e22, 123456789.125,
	float64(1 << 53), float64(1<<53) + 2, float64(1<<53) - 1, -float64(1 << 53),
	float64(1 << 62), float64(1 << 63), -float64(1 << 63), 1.8446744073709552e19,
	math.MaxFloat64, -math.MaxFloat64, math.SmallestNonzeroFloat64, 1e-7, 1e-300,
	math.Inf(1), math.Inf(-1), 0.1, 0.2, 0.30000000000000004, 1.0 / 3.0,
}

// StrPool are plain strings.
var StrPool = []string{"", "a", "b", "ab", "abc", "x y", "héllo", "日本", "0", "1", "-1", "1.5", "1e3", "true", "false", " 1", "1x", "0x10", "0b11", "1_0", "A", "\t", "\"q\"", "back\\slash", "new\nline"}

// Int draws an int64 with heavy weight on the edge pool and its neighbours.
func Int() *rapid.Generator[int64] {
	return rapid.Custom(func(t *rapid.T) int64 {
		switch rapid.IntRange(0, 9).Draw(t, "ik") {
		case 0, 1, 2, 3:
			return rapid.SampledFrom(IntPool).Draw(t, "ipool")
		case 4:
			// neighbour of a pool value (wrapping)
			return rapid.SampledFrom(IntPool).Draw(t, "ipool") + rapid.Int64Range(-3, 3).Draw(t, "d")
		case 5, 6:
			return rapid.Int64Range(-5, 70).Draw(t, "small")
		case 7:
			return rapid.Int64Range(4090, 4100).Draw(t, "cache")
		case 8:
			// power of two +- small
			sh := rapid.IntRange(0, 63).Draw(t, "sh")
			v := int64(1) << uint(sh)
			if rapid.Bool().Draw(t, "neg") {
				v = -v
			}
			return v + rapid.Int64Range(-2, 2).Draw(t, "d")
		default:
			return rapid.Int64().Draw(t, "any")
		}
	})
}

// Float draws a float64 (no NaN) with weight on the pool.
func Float() *rapid.Generator[float64] {
	return rapid.Custom(func(t *rapid.T) float64 {
		switch rapid.IntRange(0, 5).Draw(t, "fk") {
		case 0, 1, 2:
			return rapid.SampledFrom(FloatPool).Draw(t, "fpool")
		case 3:
			return float64(Int().Draw(t, "fi"))
		case 4:
			return float64(rapid.Int64Range(-1000, 1000).Draw(t, "n")) / 8
		default:
			f := rapid.Float64().Draw(t, "any")
			if math.IsNaN(f) {
				return 0.25
			}
			return f
		}
	})
}

// Str draws a string from the pool or a short random one.
func Str() *rapid.Generator[string] {
	return rapid.Custom(func(t *rapid.T) string {
		if rapid.IntRange(0, 3).Draw(t, "sk") < 3 {
			return rapid.SampledFrom(StrPool).Draw(t, "spool")
		}
		return rapid.StringOfN(rapid.RuneFrom([]rune("abAB01 .-é日\"'\\\n\t")), 0, 6, -1).Draw(t, "srnd")
	})
}

// IntLit spells an int64 as an anko literal expression. MinInt64 is spelled with the
// '-' NUMBER literal production like every other negative number.
func IntLit(v int64) string {
	return strconv.FormatInt(v, 10)
}

// FloatLit spells a float64 as an anko expression evaluating to exactly that value.
// Inf is spelled as an overflow-free expression; negative zero as -0.0.
func FloatLit(f float64) string {
	switch {
	case math.IsInf(f, 1):
		return "(1.7976931348623157e308 * 10.0)"
	case math.IsInf(f, -1):
		return "(-1.7976931348623157e308 * 10.0)"
	case math.IsNaN(f):
		return "((1.7976931348623157e308 * 10.0) - (1.7976931348623157e308 * 10.0))"
	}
	s := strconv.FormatFloat(f, 'g', -1, 64)
	if !strings.ContainsAny(s, ".e") {
		s += ".0"
	}
	// the lexer does not accept a leading '.', strconv never produces one
	return s
}

// StrLit spells a Go string as a double-quoted anko string literal.
// The anko escape set is \\ \" \' \n \t \r \b \f; every other rune is written raw
// (the scanner accepts any rune except the closing quote and EOF inside quotes).
func StrLit(s string) string {
	var b strings.Builder
	b.WriteByte('"')
	for _, r := range s {
		switch r {
		case '\\':
			b.WriteString(`\\`)
		case '"':
			b.WriteString(`\"`)
		case '\n':
			b.WriteString(`\n`)
		case '\t':
			b.WriteString(`\t`)
		case '\r':
			b.WriteString(`\r`)
		case '\b':
			b.WriteString(`\b`)
		case '\f':
			b.WriteString(`\f`)
		default:
			b.WriteRune(r)
		}
	}
	b.WriteByte('"')
	return b.String()
}
