// Package c13ov prepares the `go test -overlay` used by property C13: a rewritten
// copy of the CURRENT <repo>/env/*.go in which every sync.RWMutex / sync.Mutex type
// is replaced by the scheduler-aware wrapper env.VerifMutex, plus one added file
// that defines the wrapper and the exported hook env.VerifLockHook.
//
// Nothing in the repository is touched: the copies live in the driver's scratch
// directory and are mapped over the original paths by the overlay file.
package c13ov

import (
	"encoding/json"
	"fmt"
	"go/ast"
	"go/parser"
	"go/token"
	"os"
	"path/filepath"
	"sort"
	"strconv"
	"strings"
)

// HookFileName is the name of the file added to package env.
const HookFileName = "zz_verif_c13_mutex.go"

// HookSource is the file added to package env through the overlay.
const HookSource = `// Code added at check time by /verif (property C13); not part of the repository.

package env

import "sync"

// Operation codes handed to VerifLockHook.
const (
	VerifOpLock = iota
	VerifOpUnlock
	VerifOpRLock
	VerifOpRUnlock
	VerifOpTryLock
	VerifOpTryRLock
)

// VerifLockHook, when non-nil, receives every lock operation of package env INSTEAD
// of the real mutex (the return value is the result of TryLock/TryRLock). When nil
// the wrapper is a plain sync.RWMutex.
var VerifLockHook func(op int, m *VerifMutex) bool

// VerifRewrittenSites is the number of mutex type occurrences the rewrite replaced.
var VerifRewrittenSites = %d

// VerifMutex stands in for sync.RWMutex and sync.Mutex in package env.
type VerifMutex struct {
	real sync.RWMutex
}

func (m *VerifMutex) Lock() {
	if h := VerifLockHook; h != nil {
		h(VerifOpLock, m)
		return
	}
	m.real.Lock()
}

func (m *VerifMutex) Unlock() {
	if h := VerifLockHook; h != nil {
		h(VerifOpUnlock, m)
		return
	}
	m.real.Unlock()
}

func (m *VerifMutex) RLock() {
	if h := VerifLockHook; h != nil {
		h(VerifOpRLock, m)
		return
	}
	m.real.RLock()
}

func (m *VerifMutex) RUnlock() {
	if h := VerifLockHook; h != nil {
		h(VerifOpRUnlock, m)
		return
	}
	m.real.RUnlock()
}

func (m *VerifMutex) TryLock() bool {
	if h := VerifLockHook; h != nil {
		return h(VerifOpTryLock, m)
	}
	return m.real.TryLock()
}

func (m *VerifMutex) TryRLock() bool {
	if h := VerifLockHook; h != nil {
		return h(VerifOpTryRLock, m)
	}
	return m.real.TryRLock()
}

type verifRLocker VerifMutex

func (r *verifRLocker) Lock()   { (*VerifMutex)(r).RLock() }
func (r *verifRLocker) Unlock() { (*VerifMutex)(r).RUnlock() }

// RLocker mirrors (*sync.RWMutex).RLocker.
func (m *VerifMutex) RLocker() sync.Locker { return (*verifRLocker)(m) }
`

type span struct{ from, to int }

// rewrite returns the source with every <sync>.RWMutex / <sync>.Mutex selector replaced
// by VerifMutex (byte splicing, so line numbers are unchanged) and the number of sites.
func rewrite(path string, src []byte) ([]byte, int, error) {
	fset := token.NewFileSet()
	f, err := parser.ParseFile(fset, path, src, parser.ParseComments)
	if err != nil {
		return nil, 0, err
	}
	syncName := ""
	for _, im := range f.Imports {
		p, _ := strconv.Unquote(im.Path.Value)
		if p != "sync" {
			continue
		}
		syncName = "sync"
		if im.Name != nil {
			syncName = im.Name.Name
		}
	}
	if syncName == "" || syncName == "_" || syncName == "." {
		return src, 0, nil
	}
	var spans []span
	ast.Inspect(f, func(n ast.Node) bool {
		se, ok := n.(*ast.SelectorExpr)
		if !ok {
			return true
		}
		id, ok := se.X.(*ast.Ident)
		if !ok || id.Name != syncName {
			return true
		}
		if se.Sel.Name != "RWMutex" && se.Sel.Name != "Mutex" {
			return true
		}
		spans = append(spans, span{fset.Position(se.Pos()).Offset, fset.Position(se.End()).Offset})
		return false
	})
	if len(spans) == 0 {
		return src, 0, nil
	}
	sort.Slice(spans, func(i, j int) bool { return spans[i].from < spans[j].from })
	var out []byte
	last := 0
	for _, s := range spans {
		out = append(out, src[last:s.from]...)
		out = append(out, "VerifMutex"...)
		last = s.to
	}
	out = append(out, src[last:]...)
	// keep the import used
	out = append(out, ("\n\nvar _ " + syncName + ".Locker\n")...)
	return out, len(spans), nil
}

// Prepare writes the rewritten copies, the added file and overlay.json under
// <scratch>/c13ov and returns the path of overlay.json.
func Prepare(scratch, repo string) (string, error) {
	repo, err := filepath.Abs(repo)
	if err != nil {
		return "", err
	}
	envDir := filepath.Join(repo, "env")
	files, err := filepath.Glob(filepath.Join(envDir, "*.go"))
	if err != nil {
		return "", err
	}
	sort.Strings(files)
	outDir := filepath.Join(scratch, "c13ov")
	if err := os.MkdirAll(outDir, 0o755); err != nil {
		return "", err
	}
	replace := map[string]string{}
	sites := 0
	seen := 0
	for _, p := range files {
		base := filepath.Base(p)
		if strings.HasSuffix(base, "_test.go") {
			continue
		}
		if base == HookFileName {
			return "", fmt.Errorf("%s already exists in the repository", p)
		}
		seen++
		src, err := os.ReadFile(p)
		if err != nil {
			return "", err
		}
		out, n, err := rewrite(p, src)
		if err != nil {
			return "", fmt.Errorf("rewrite %s: %v", p, err)
		}
		if n == 0 {
			continue
		}
		sites += n
		dst := filepath.Join(outDir, base)
		if err := os.WriteFile(dst, out, 0o644); err != nil {
			return "", err
		}
		replace[p] = dst
	}
	if seen == 0 {
		return "", fmt.Errorf("no Go files found in %s", envDir)
	}
	hook := filepath.Join(outDir, HookFileName)
	if err := os.WriteFile(hook, []byte(fmt.Sprintf(HookSource, sites)), 0o644); err != nil {
		return "", err
	}
	replace[filepath.Join(envDir, HookFileName)] = hook
	b, _ := json.MarshalIndent(map[string]interface{}{"Replace": replace}, "", " ")
	ov := filepath.Join(outDir, "overlay.json")
	if err := os.WriteFile(ov, b, 0o644); err != nil {
		return "", err
	}
	return ov, nil
}
