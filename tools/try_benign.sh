#!/bin/bash
# tools/try_benign.sh <ID> <k> [check-ids...]: applies the property-preserving change /tmp/benign/out/<ID>/<k>/patch.diff
# to a scratch worktree of /repo HEAD, runs the project's suite, then the quick tier of the given checks
# (default: <ID>); every check is expected to stay silent (exit 0). Development aid; the worktree is removed.
export GOFLAGS=-mod=mod GOPROXY=off GOSUMDB=off GOTOOLCHAIN=local
ID=$1; K=$2; shift 2; CHECKS=${@:-$ID}
ROOT=${BENIGNROOT:-/tmp/benign}
SRC=$ROOT/out/$ID/$K
[ -d $SRC ] || SRC=/verif/benign/$ID-$K
WT=/tmp/tb-$ID-$K-$$
git -C /repo worktree prune; git -C /repo worktree add -q --detach $WT || exit 2
P=$SRC/patch.diff; [ -f $SRC/patch.rebased.diff ] && P=$SRC/patch.rebased.diff
(cd $WT && git apply $P) || { echo "$ID-$K patch does not apply"; git -C /repo worktree remove --force $WT; exit 2; }
suite=$(cd $WT && go build ./... 2>&1 && go test -vet=off -count=1 ./... 2>&1 | grep "^--- FAIL" | grep -v "TestRunInteractive\|Example_vmHttp" | tr '\n' ' ')
res=""
for c in $CHECKS; do
  rm -rf /verif/replays/$c/found.$$
  out=$(cd /verif && VERIF_REPO=$WT ./check $c quick 2>&1); code=$?
  sig=$(echo "$out" | grep -m2 "sig=" | sed 's/.*sig=//' | cut -c1-100 | tr '\n' ';')
  res="$res $c=$code[$sig]"
done
git -C /repo worktree remove --force $WT
echo "$ID-$K suite_failures=[$suite] checks:$res"
