#!/usr/bin/env python3
"""Round 2 of the seeded changes: normalises seeded/<ID>-{4,5,6}/meta.json (written by tools/confirm_seed.sh) to the
format of round 1, adds the final quick-tier results of seeded/RESULTS.seed<N>.tsv to every seed's meta.json and
prints the table for DESIGN §7.3."""
import json, glob, os, re, sys
DEST='/verif/seeded'
notes=json.load(open('/verif/tools/seed_notes2.json'))
notes.update(json.load(open('/verif/tools/seed_notes3.json')))
for _n in ('4','5','6','7','8'):
    if os.path.exists('/verif/tools/seed_notes%s.json'%_n): notes.update(json.load(open('/verif/tools/seed_notes%s.json'%_n)))
ONLY=sys.argv[1] if len(sys.argv)>1 else ''
final={}
for f in sorted(glob.glob(DEST+'/RESULTS.seed*.tsv')):
    sd=re.search(r'seed(\d+)',f).group(1)
    for line in open(f):
        p=line.rstrip('\n').split('\t')
        if len(p)>=3: final.setdefault(p[0],{})[sd]=(p[2],p[3] if len(p)>3 else '')
rows=[]
R4LAST=json.load(open('/verif/tools/round4_last_index.json'))
R5LAST=json.load(open('/verif/tools/round5_last_index.json')) if os.path.exists('/verif/tools/round5_last_index.json') else {}
R6LAST=json.load(open('/verif/tools/round6_last_index.json')) if os.path.exists('/verif/tools/round6_last_index.json') else {}
R7LAST=json.load(open('/verif/tools/round7_last_index.json')) if os.path.exists('/verif/tools/round7_last_index.json') else {}
def round_of(key):
    k=int(key.split('-')[1])
    if k<=3: return 1
    if k<=6: return 2
    if k<=9: return 3
    if k<=R4LAST.get(key[:3],99): return 4
    if k<=R5LAST.get(key[:3],999): return 5
    if k<=R6LAST.get(key[:3],9999): return 6
    return 7 if k<=R7LAST.get(key[:3],99999) else 8
for d in sorted([d for d in glob.glob(DEST+'/C*-*') if os.path.isdir(d) and os.path.exists(d+'/meta.json') and int(d.split('-')[-1])>=4], key=lambda x:(x.split('/')[-1][:3], int(x.split('-')[-1]))):
    key=os.path.basename(d)
    m=json.load(open(d+'/meta.json'))
    am=m.get('agent_meta') or {}
    if 'agent_meta' in m:
        first=m.get('quick_tier_exit_codes',{})
        conf=m.get('confirmed',{})
        new={
          'seed': key, 'round': round_of(key), 'breaks_property': key[:3],
          'title': am.get('title',''), 'mechanism_it_is_aimed_at': am.get('mechanism',''), 'files_changed': am.get('files_changed',[]),
          'what_breaks': am.get('what_breaks',''), 'needs_to_manifest': am.get('needs_to_manifest',''),
          'violated_clause_as_quoted_by_its_author': am.get('violated_clause',''),
          'hardness_as_judged_by_its_author': am.get('hardness',''),
          'kind_of_trigger_it_needs': am.get('kind',''),
          'demonstration': am.get('demo',{}),
          'confirmed_by_me': {
             'what_was_run': m.get('what_was_run',''),
             'demonstration_exit_status_on_unchanged_tree': conf.get('demo_exit_unchanged_tree'),
             'demonstration_exit_status_with_change': conf.get('demo_exit_with_mutant'),
             'suite_failures_with_change_other_than_TestRunInteractive': conf.get('suite_failures_other_than_TestRunInteractive'),
          },
          'quick_tier_exit_status_with_change_first_version_of_the_check': first,
        }
        m=new
    m['note']=notes.get(key,'')
    m['round']=round_of(key)
    m['quick_tier_with_change_final']={('seed '+sd):{'exit':int(v[0]) if v[0].isdigit() else None,'first_signature':v[1]} for sd,v in final.get(key,{}).items()}
    json.dump(m, open(d+'/meta.json','w'), indent=1)
    for junk in ('meta.agent.json',):
        if os.path.exists(d+'/'+junk): os.remove(d+'/'+junk)
    first=m.get('quick_tier_exit_status_with_change_first_version_of_the_check',{})
    fs=', '.join(f'{p}:{"caught" if c==1 else ("inconclusive" if c==2 else "missed")}' for p,c in first.items())
    fin=', '.join(f's{sd}:{"caught" if v[0]=="1" else "missed"}' for sd,v in sorted(final.get(key,{}).items()))
    if ONLY and str(m.get('round')) != ONLY:
        continue
    rows.append((key,(m.get('title') or m.get('what_breaks',''))[:110].replace('|','/'), fs, fin, m['note'].replace('|','/')))
# round 1: add the final results too
for d in sorted(glob.glob(DEST+'/C*-[123]')):
    key=os.path.basename(d)
    m=json.load(open(d+'/meta.json'))
    m['quick_tier_with_change_final']={('seed '+sd):{'exit':int(v[0]) if v[0].isdigit() else None,'first_signature':v[1]} for sd,v in final.get(key,{}).items()}
    json.dump(m, open(d+'/meta.json','w'), indent=1)
print("| seed | change (author's words, shortened) | first version of the check | final | note |\n|---|---|---|---|---|")
for r in rows: print('| '+' | '.join(r)+' |')
