#!/bin/bash
# tools/rerun_seeds.sh [seed] : runs the quick tier of every seeded change's own check against the change
# (scratch worktree per seed, removed afterwards) and writes seeded/RESULTS.tsv: seed-name, check, exit, first signature
cd /verif
SEED=${1:-1}
ls -d seeded/C*-* | sed 's#seeded/##' | sort -V > /tmp/rerun-list.txt
one() {
  s=$1; c=${s%%-*}
  out=$(LINES_MAX=3 /verif/tools/try_seed.sh $s $c quick $SEED 2>&1)
  code=$(echo "$out" | grep -o "exit [0-9]*$" | tail -1 | awk '{print $2}')
  sig=$(echo "$out" | grep -m1 "sig=" | sed 's/.*sig=//' | cut -c1-120)
  printf "%s\t%s\t%s\t%s\n" "$s" "$c" "$code" "$sig"
}
export -f one; export SEED
cat /tmp/rerun-list.txt | xargs -P 6 -I{} bash -c 'one {}' | sort -V > seeded/RESULTS.seed$SEED.tsv
awk -F'\t' '{n[$3]++} END {for (k in n) print "exit " k ": " n[k]}' seeded/RESULTS.seed$SEED.tsv
