#!/bin/bash
# tools/rebase_seeds.sh [dir=seeded]: finds the seeded (or benign) changes whose patch no longer applies to /repo HEAD and
# rebases them with a three-way merge (git apply --3way uses the blob ids recorded in the patch); writes patch.rebased.diff.
# Prints one line per patch that needed attention. Development aid.
cd /verif
DIR=${1:-seeded}
WT=/tmp/rebase-$$
git -C /repo worktree prune; git -C /repo worktree add -q --detach $WT || exit 2
for d in $DIR/C*-*; do
  [ -f /verif/$d/patch.diff ] || continue
  d=/verif/$d; P=$d/patch.diff; [ -f $d/patch.rebased.diff ] && P=$d/patch.rebased.diff
  if git -C $WT apply --check $P 2>/dev/null; then continue; fi
  ok=""
  for cand in $d/patch.rebased.diff $d/patch.diff; do
    [ -f $cand ] || continue
    git -C $WT checkout -q -- . ; git -C $WT clean -fdq
    if git -C $WT apply --3way $cand >/dev/null 2>&1 && ! git -C $WT diff --name-only --diff-filter=U | grep -q .; then
      if ! grep -rq '^<<<<<<< \|^>>>>>>> ' $(git -C $WT diff HEAD --name-only | sed "s#^#$WT/#") 2>/dev/null; then
        git -C $WT diff HEAD > $d/patch.rebased.diff.new && mv $d/patch.rebased.diff.new $d/patch.rebased.diff; ok=$cand; break
      fi
    fi
  done
  git -C $WT reset -q --hard; git -C $WT clean -fdq
  if [ -n "$ok" ]; then echo "REBASED $(basename $d) (from $(basename $ok))"; else echo "CONFLICT $(basename $d)"; fi
done
git -C /repo worktree remove --force $WT
