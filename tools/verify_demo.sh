#!/bin/bash
# tools/verify_demo.sh <ID> <k>: confirms the demonstration of a seeded change: it must pass on a
# fresh worktree of /repo's HEAD and fail once patch.diff is applied; the project's own suite must still pass.
export GOFLAGS=-mod=mod GOPROXY=off GOSUMDB=off GOTOOLCHAIN=local
ID=$1; K=$2
ROOT=${SEEDROOT:-/tmp/seed}; OFF=${SEEDOFF:-0}
SRC=$ROOT/out/$ID/$K
[ -d $SRC ] || SRC=/verif/seeded/$ID-$((K+OFF))
WT=/tmp/vdemo-$ID-$K
rm -rf $WT; git -C /repo worktree prune; git -C /repo worktree add -q --detach $WT || exit 2
meta=$SRC/meta.json; [ -f $SRC/meta.agent.json ] && meta=$SRC/meta.agent.json
copy_to=$(jq -r '.demo.copy_to // empty' $meta | awk '{print $1}' | sed "s#^$ROOT/$ID/##; s#[,;)]*\$##")
cmd=$(jq -r '.demo.command // empty' $meta | sed "s#$ROOT/out/$ID/$K#$SRC#g; s#$ROOT/$ID#$WT#g")
place() {
  if [ -f $SRC/demo_test.go ]; then
    case "$copy_to" in
      *.go) mkdir -p $WT/$(dirname $copy_to); cp $SRC/demo_test.go $WT/$copy_to;;
      "") cp $SRC/demo_test.go $WT/vm/zz_seed_demo_test.go;;
      *) mkdir -p $WT/$copy_to; cp $SRC/demo_test.go $WT/$copy_to/zz_seed_demo_test.go;;
    esac
  fi
  if [ -d $SRC/demo ]; then
    case "$copy_to" in
      *.go) mkdir -p $WT/$(dirname $copy_to); cp $SRC/demo/main.go $WT/$copy_to;;
      "") mkdir -p $WT/zz_demo; cp -r $SRC/demo/* $WT/zz_demo/;;
      *) mkdir -p $WT/$copy_to; cp -r $SRC/demo/* $WT/$copy_to/;;
    esac
  fi
}
place
( cd $WT && eval "$cmd" ) > /tmp/vdemo-$ID-$K.clean.log 2>&1; clean=$?
( cd $WT && git apply $SRC/patch.diff ) || { echo "$ID-$K patch does not apply"; git -C /repo worktree remove --force $WT; exit 2; }
( cd $WT && eval "$cmd" ) > /tmp/vdemo-$ID-$K.mut.log 2>&1; mut=$?
ran=$(grep -c "^--- \|^ok \|^FAIL\|^PASS\|exit status" /tmp/vdemo-$ID-$K.clean.log /tmp/vdemo-$ID-$K.mut.log | tr '\n' ' ')
norun=$(grep -c "no tests to run" /tmp/vdemo-$ID-$K.clean.log)
# suite with the mutant, demo removed
( cd $WT && git clean -fdq && go build ./... && go test -vet=off -count=1 ./... 2>&1 | grep -v "no test files" ) > /tmp/vdemo-$ID-$K.suite.log 2>&1
other=$(grep "^--- FAIL" /tmp/vdemo-$ID-$K.suite.log | grep -vc TestRunInteractive)
git -C /repo worktree remove --force $WT
echo "$ID-$K demo_exit_clean=$clean demo_exit_mutant=$mut no_tests_ran=$norun suite_failures_other_than_TestRunInteractive=$other cmd=[$cmd] copy_to=[$copy_to]"
