#!/bin/bash
# tools/run_all.sh <quick|thorough> [seed]   runs every registered check once and prints one line each
cd "$(dirname "$0")/.."
tier=${1:-quick}; seed=${2:-1}
fail=0
for id in $(jq -r '.checks[].property_id' MANIFEST.json); do
  start=$(date +%s)
  out=$(VERIF_SEED=$seed ./check $id $tier 2>&1); code=$?
  echo "$id exit=$code $(( $(date +%s) - start ))s :: $(echo "$out" | grep "$tier seed" | tail -1)"
  if [ $code -ne 0 ]; then fail=1; echo "$out" | grep -E "^VIOLATION|sig=|INCONCL" | head -10 | cut -c1-300; fi
done
exit $fail
