#!/usr/bin/env python3
"""tools/merge_results.py <tsv>...: merges re-run results (seed name, check, exit, signature) into seeded/RESULTS.seed1.tsv,
later files overriding earlier lines of the same seed."""
import sys,re
p='/verif/seeded/RESULTS.seed1.tsv'
rows={}
for f in [p]+sys.argv[1:]:
    try: lines=open(f).read().splitlines()
    except FileNotFoundError: continue
    for l in lines:
        c=l.split('\t')
        if len(c)>=3 and c[2]!='': rows[c[0]]=c+['']*(4-len(c))
def key(k): m=re.match(r'C(\d+)-(\d+)',k); return (int(m.group(1)),int(m.group(2)))
open(p,'w').write(''.join('\t'.join(rows[k][:4])+'\n' for k in sorted(rows,key=key)))
n={}
for k,v in rows.items(): n[v[2]]=n.get(v[2],0)+1
print(len(rows),n)
