#!/usr/bin/env python3
"""Builds /verif/seeded/<ID>-<k>/ (patch.diff, demonstration, meta.json) from the sub-agents' output under
/tmp/seed/out, the demonstration verification log and the quick-tier confirmation log, and prints the table for DESIGN §7."""
import json, os, re, shutil, sys, glob
OUT='/tmp/seed/out'; DEST='/verif/seeded'
verify={}
for line in open('/tmp/seed/verify.log'):
    m=re.match(r'(C\d\d-\d) demo_exit_clean=(\d+) demo_exit_mutant=(\d+) no_tests_ran=(\d+) suite_failures_other_than_TestRunInteractive=(\d+) cmd=\[(.*)\] copy_to=\[(.*)\]', line.strip())
    if m: verify[m.group(1)]=dict(clean=int(m.group(2)), mutant=int(m.group(3)), norun=int(m.group(4)), suite=int(m.group(5)), cmd=m.group(6), copy_to=m.group(7))
confirm={}
for line in open('/tmp/seed/confirm.log'):
    m=re.match(r'(C\d\d-\d): .*checks: (.*)$', line.strip())
    if m:
        confirm[m.group(1)]={k:int(v) for k,v in re.findall(r'"(C\d\d)": (\d+)', m.group(2))}
notes=json.load(open('/verif/tools/seed_notes.json')) if os.path.exists('/verif/tools/seed_notes.json') else {}
rows=[]
for d in sorted(glob.glob(OUT+'/C*/[123]')):
    ID=os.path.basename(os.path.dirname(d)); k=os.path.basename(d); key=f'{ID}-{k}'
    try: am=json.load(open(d+'/meta.json'))
    except Exception: am={}
    dest=f'{DEST}/{key}'; os.makedirs(dest, exist_ok=True)
    shutil.copy(d+'/patch.diff', dest+'/patch.diff')
    for f in ('demo_test.go',):
        if os.path.exists(d+'/'+f): shutil.copy(d+'/'+f, dest+'/'+f)
    if os.path.isdir(d+'/demo'):
        shutil.copytree(d+'/demo', dest+'/demo', dirs_exist_ok=True)
    for junk in ('meta.agent.json','confirm.log'):
        if os.path.exists(dest+'/'+junk): os.remove(dest+'/'+junk)
    v=verify.get(key,{}); c=confirm.get(key,{})
    caught=[p for p,code in c.items() if code==1]
    meta={
      'seed': key, 'breaks_property': ID,
      'title': am.get('title',''), 'files_changed': am.get('files_changed',[]),
      'what_breaks': am.get('what_breaks',''), 'needs_to_manifest': am.get('needs_to_manifest',''),
      'hardness_as_judged_by_its_author': am.get('hardness',''),
      'demonstration': {'copy_to': v.get('copy_to',''), 'command': re.sub(r'/tmp/vdemo-C\d\d-\d','<worktree>',v.get('cmd',''))},
      'confirmed_by_me': {
         'what_was_run': 'tools/verify_demo.sh: fresh worktree of /repo HEAD; demonstration before and after `git apply patch.diff`; then `go build ./... && go test -vet=off -count=1 ./...` with the change applied. tools/confirm_seed.sh: `VERIF_REPO=<worktree with the change> ./check <ID> quick` for the listed checks.',
         'demonstration_exit_status_on_unchanged_tree': v.get('clean'), 'demonstration_exit_status_with_change': v.get('mutant'),
         'suite_failures_with_change_other_than_TestRunInteractive': v.get('suite'),
      },
      'quick_tier_exit_status_with_change': c, 'caught_by': caught,
      'note': notes.get(key,''),
    }
    json.dump(meta, open(dest+'/meta.json','w'), indent=1)
    rows.append((key, (am.get('title') or am.get('what_breaks',''))[:110].replace('|','/'), ', '.join(f'{p}:{"caught" if code==1 else ("inconclusive" if code==2 else "missed")}' for p,code in c.items()), notes.get(key,'')))
print('| seed | change (author\'s words, shortened) | quick tier | note |\n|---|---|---|---|')
for r in rows: print('| '+' | '.join(r)+' |')
