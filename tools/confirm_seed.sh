#!/bin/bash
# tools/confirm_seed.sh <ID> <k> [check-ids...]
# Confirms a seeded change produced by an independent sub-agent (/tmp/seed/out/<ID>/<k>/):
#   1. the patch applies to a fresh worktree of /repo's HEAD and the project still builds,
#   2. the project's own test suite still passes with it,
#   3. the demonstration fails with it and passes without it,
# then runs the quick tier of the given checks (default: <ID>) against the mutated checkout and records
# everything in /verif/seeded/<ID>-<k>/ (patch.diff, demo, meta.json, confirm.log).
export GOFLAGS=-mod=mod GOPROXY=off GOSUMDB=off GOTOOLCHAIN=local
ID=$1; K=$2; shift 2; CHECKS=${@:-$ID}
ROOT=${SEEDROOT:-/tmp/seed}; OFF=${SEEDOFF:-0}
SRC=$ROOT/out/$ID/$K
OUT=/verif/seeded/$ID-$((K+OFF))
[ -f $SRC/patch.diff ] || { echo "no patch in $SRC"; exit 2; }
WT=/tmp/confirm-$ID-$K
rm -rf $WT; git -C /repo worktree prune; git -C /repo worktree add -q --detach $WT || exit 2
mkdir -p $OUT; cp $SRC/patch.diff $OUT/; cp $SRC/meta.json $OUT/meta.agent.json 2>/dev/null
[ -f $SRC/demo_test.go ] && cp $SRC/demo_test.go $OUT/
[ -d $SRC/demo ] && cp -r $SRC/demo $OUT/
LOG=$OUT/confirm.log; : > $LOG
copy_to=$(jq -r '.demo.copy_to // empty' $SRC/meta.json 2>/dev/null)
cmd=$(jq -r '.demo.command // empty' $SRC/meta.json 2>/dev/null)
echo "demo.copy_to=$copy_to" >> $LOG; echo "demo.command=$cmd" >> $LOG
rel=$(echo "$copy_to" | awk '{print $1}' | sed "s#^$ROOT/$ID/##; s#[,;)]*\$##")
place_demo() {
  if [ -f $SRC/demo_test.go ]; then
    case "$rel" in
      *.go) mkdir -p $WT/$(dirname $rel); cp $SRC/demo_test.go $WT/$rel;;
      "") cp $SRC/demo_test.go $WT/vm/zz_seed_demo_test.go;;
      *) mkdir -p $WT/$rel; cp $SRC/demo_test.go $WT/$rel/zz_seed_demo_test.go;;
    esac
  fi
  if [ -d $SRC/demo ]; then
    case "$rel" in
      *.go) mkdir -p $WT/$(dirname $rel); cp $SRC/demo/main.go $WT/$rel;;
      "") mkdir -p $WT/zz_demo; cp -r $SRC/demo/* $WT/zz_demo/;;
      *) mkdir -p $WT/$rel; cp -r $SRC/demo/* $WT/$rel/;;
    esac
  fi
}
run_demo() { (cd $WT && eval "$(echo "$cmd" | sed "s#$ROOT/$ID#$WT#g; s#<worktree>#$WT#g")") >> $LOG 2>&1; }
# --- without the mutant
place_demo
echo "== demo on unchanged tree" >> $LOG
run_demo; demo_clean=$?
# --- with the mutant
if ! (cd $WT && git apply $SRC/patch.diff) >> $LOG 2>&1; then
  # written against an older HEAD: three-way merge with the blobs the patch names; keep the result as patch.rebased.diff
  (cd $WT && git checkout -q -- . && git apply --3way $SRC/patch.diff) >> $LOG 2>&1 && ! (cd $WT && git diff --name-only --diff-filter=U | grep -q .) \
    || { echo "$ID-$K patch does not apply" | tee -a $LOG; git -C /repo worktree remove --force $WT; exit 2; }
  (cd $WT && git reset -q && git diff HEAD -- . ':!*zz_*' ':!*demo*') > $OUT/patch.rebased.diff
  echo "rebased with a three-way merge" >> $LOG
fi
echo "== demo with mutant" >> $LOG
run_demo; demo_mut=$?
# remove the demo before running the suite
(cd $WT && git clean -fdq)
echo "== go build + suite with mutant" >> $LOG
(cd $WT && go build ./... && go test -vet=off -count=1 ./... 2>&1 | grep -v "no test files") >> $LOG 2>&1
# count failures of the project's suite only (after the marker), not the demonstration's own; Example_vmHttp
# binds port 8080 and collides when several confirmations run at once
only_interactive=$(sed -n '/== go build + suite/,$p' $LOG | grep "^--- FAIL" | grep -v Example_vmHttp | grep -vc TestRunInteractive)
declare -A res
for c in $CHECKS; do
  rm -rf /verif/replays/$c/found
  out=$(cd /verif && VERIF_REPO=$WT ./check $c quick 2>&1)
  code=$?
  echo "== ./check $c quick -> exit $code" >> $LOG
  echo "$out" | grep -E "^VIOLATION|sig=|quick seed|INCONCL" | cut -c1-300 >> $LOG
  res[$c]=$code
  rm -rf /verif/replays/$c/found
done
git -C /repo worktree remove --force $WT
caught=""; for c in $CHECKS; do caught="$caught\"$c\": ${res[$c]}, "; done
cat > $OUT/meta.json <<JSON
{
 "seed": "$ID-$((K+OFF))",
 "breaks_property": "$ID",
 "agent_meta": $(cat $SRC/meta.json 2>/dev/null || echo null),
 "confirmed": {"demo_exit_unchanged_tree": $demo_clean, "demo_exit_with_mutant": $demo_mut, "suite_failures_other_than_TestRunInteractive": $only_interactive},
 "quick_tier_exit_codes": { ${caught%, } },
 "what_was_run": "tools/confirm_seed.sh $ID $K $CHECKS : fresh worktree of /repo HEAD; demo before/after git apply patch.diff; go build ./... && go test -vet=off -count=1 ./...; VERIF_REPO=<worktree> ./check <ID> quick"
}
JSON
echo "$ID-$K: demo clean=$demo_clean mutant=$demo_mut suite_other_failures=$only_interactive checks: ${caught}"
