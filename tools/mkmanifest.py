#!/usr/bin/env python3
"""Regenerates /verif/MANIFEST.json from the table below (single source of truth)."""
import json, os, sys
here = os.path.dirname(os.path.dirname(os.path.abspath(__file__)))
ALL = ["C%02d" % i for i in range(1, 21)]

# id -> (technique, level text, level note, design ref)
CHECKS = {}
def add(i, technique, text, note, ref=None):
    CHECKS[i] = dict(technique=technique, text=text, note=note, ref=ref or ("DESIGN.md §3 " + i))

exec(open(os.path.join(here, "tools", "manifest_table.py")).read())

NA = {}
for i in ALL:
    if i not in CHECKS:
        NA[i] = NA_REASONS.get(i, "check not built yet (work in progress in this session); no claim is made")

m = {
    "version": 1,
    "setup_cmd": "cd /verif && ./setup.sh",
    "hooks": {
        "guard": "verif",
        "enable": "none needed: /repo carries no verification hooks; the only instrumentation (C13 scheduler-aware mutex) is applied at check time with `go test -overlay` to a rewritten copy of env/*.go",
        "baseline_off_cmd": "cd /repo && GOFLAGS=-mod=mod GOPROXY=off go test -vet=off -count=1 ./...",
        "source_commits": [],
        "add_only": True,
    },
    "engines": [
        {"name": "vdriver+rapid", "path": "/verif/cmd/vdriver", "serves_properties": sorted(CHECKS), "kind_free_text": "property-based testing (pgregory.net/rapid v1.3.0) with explicit oracles; driver shards, classifies against KNOWN_FINDINGS.txt and writes evidence"},
    ],
    "checks": [],
    "not_applicable": [{"property_id": i, "reason": r} for i, r in sorted(NA.items())],
    "notes": "Exit codes of every command: 0 held on everything explored, 1 VIOLATION line printed, 2 inconclusive (build failure / harness problem / budget). Known findings and fixed defects: /verif/KNOWN_FINDINGS.txt. Sensitivity mutants: /verif/seeded/.",
}
for i in sorted(CHECKS):
    c = CHECKS[i]
    m["checks"].append({
        "property_id": i,
        "quick_cmd": "./check %s quick" % i,
        "thorough_cmd": "./check %s thorough" % i,
        "evidence_file": "/verif/evidence/%s.json" % i,
        "replay_cmd_template": "./check %s --replay {path}" % i,
        "engine": "vdriver+rapid",
        "level_claimed": {"category": "exploration", "text": c["text"], "design_ref": c["ref"]},
        "level_note": c["note"],
        "technique": c["technique"],
    })
json.dump(m, open(os.path.join(here, "MANIFEST.json"), "w"), indent=1)
print("MANIFEST.json: %d checks, %d not_applicable" % (len(m["checks"]), len(m["not_applicable"])))
