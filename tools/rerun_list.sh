#!/bin/bash
# tools/rerun_list.sh <list-file> <out.tsv> [seed] [parallel]: like rerun_seeds.sh for the seed names in <list-file>
cd /verif
LIST=$1; OUT=$2; SEED=${3:-1}; PAR=${4:-6}
one() {
  s=$1; c=${s%%-*}
  out=$(LINES_MAX=3 /verif/tools/try_seed.sh $s $c quick $SEED 2>&1)
  code=$(echo "$out" | grep -o "exit [0-9]*$" | tail -1 | awk '{print $2}')
  sig=$(echo "$out" | grep -m1 "sig=" | sed 's/.*sig=//' | cut -c1-120)
  printf "%s\t%s\t%s\t%s\n" "$s" "$c" "$code" "$sig"
}
export -f one; export SEED
sort -V $LIST | xargs -P $PAR -I{} bash -c 'one {}' | sort -V > $OUT
awk -F'\t' '{n[$3]++} END {for (k in n) print "exit " k ": " n[k]}' $OUT
