NA_REASONS = {}
add("C05", "property-based differential testing against a native-Go reference evaluator (rapid)",
    "Generated typed expression trees (depth<=4) over the full operator set with operands from int64/float64/string edge pools are evaluated by anko and by a reference evaluator written with Go's own int64/float64 operators; value, dynamic type and error-presence must agree. Exploration: held on every generated case.",
    "Trusted: Go arithmetic as the specification, the tree printer (fully parenthesised), rapid. Only operand-kind combinations the statement defines are asserted.")
MODEL_NOTE = "Trusted: the reference interpreter internal/prog/model.go (written from the statements, never sees anko's parser/ast), the printer (fully parenthesised), rapid. Under-specified choices (loop scope per loop or per iteration, try/catch/finally sharing one scope, finally after an abruptly exiting catch) are accepted either way. Programs that leave the specified domain are excluded and counted."
add("C04", "model-based property testing: generated programs vs an independent reference interpreter (rapid)",
    "Constructively generated, terminating programs nesting every block kind with assignments, var declarations, reads, existence probes, closures (incl. escaping ones), modules and recursion over a 4-name pool are run by anko and by a reference interpreter; the probe trace, result, error status and the final top-level bindings must agree. Exploration: held on every generated program.",
    MODEL_NOTE)
add("C08", "model-based property testing: generated programs vs an independent reference interpreter (rapid)",
    "Generated terminating programs nesting if/else-if/else, switch, the four loop forms and functions with break/continue/return at every position and conditions from every truthiness class are run by anko and by the reference interpreter; trace, result and error status must agree. Signals leaving a try body are the known finding F-try-signal (reproduced from three committed replays, excluded from generation).",
    MODEL_NOTE)
add("C09", "model-based property testing: generated programs vs an independent reference interpreter (rapid)",
    "Generated programs nesting try/catch/finally, throw, runtime errors and functions with deferred calls (host probes, script functions, closure literals that raise or nest try/defer) are run by anko and by the reference interpreter; trace (order and multiplicity of every probe, incl. deferred ones), result, error presence and thrown-error text must agree.",
    MODEL_NOTE)
add("C07", "model-based property testing: probe traces of generated expressions vs an independent reference interpreter (rapid)",
    "Typed expression trees whose leaves are side-effecting probes with unique ids are placed in every call form (script functions on the direct and reflect paths, variadic, Go functions fixed/variadic/typed, plain/spread/wrong-arity/anonymous/go/defer), literal, operator, index/slice, return-list and multi-assignment position; anko's probe trace must equal the reference interpreter's (source order, each exactly once, truncated after a raising or unconvertible operand, short-circuit operands skipped), and the values must land in the right slots. op= / ++ on index targets and assignment target-vs-RHS order are compared as multisets.",
    MODEL_NOTE)
