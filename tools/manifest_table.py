NA_REASONS = {}
add("C05", "property-based differential testing against a native-Go reference evaluator (rapid)",
    "Generated typed expression trees (depth<=4) over the full operator set with operands from int64/float64/string edge pools are evaluated by anko and by a reference evaluator written with Go's own int64/float64 operators; value, dynamic type and error-presence must agree. cached: after histories that write through pointers, ++, op=, elements, fields and parameters on freshly computed small integers, integer trees must still evaluate to Go's results and a canary of small sums in a fresh environment must be unchanged (no shared mutable boxes behind the small-value fast path). Exploration: held on every generated case.",
    "Trusted: Go arithmetic as the specification, the tree printer (fully parenthesised), rapid. Only operand-kind combinations the statement defines are asserted.")
MODEL_NOTE = "Trusted: the reference interpreter internal/prog/model.go (written from the statements, never sees anko's parser/ast), the printer (fully parenthesised), rapid. Under-specified choices (loop scope per loop or per iteration, try/catch/finally sharing one scope, finally after an abruptly exiting catch) are accepted either way. Programs that leave the specified domain are excluded and counted."
add("C04", "model-based property testing: generated programs vs an independent reference interpreter (rapid)",
    "Constructively generated, terminating programs nesting every block kind with assignments, var declarations, reads, existence probes, closures (incl. escaping ones), modules and recursion over a 4-name pool are run by anko and by a reference interpreter; the probe trace, result, error status and the final top-level bindings must agree. Exploration: held on every generated program.",
    MODEL_NOTE)
add("C08", "model-based property testing: generated programs vs an independent reference interpreter (rapid)",
    "Generated terminating programs nesting if/else-if/else, switch, the four loop forms and functions with break/continue/return at every position and conditions from every truthiness class are run by anko and by the reference interpreter; trace, result and error status must agree. Signals leaving a try body are the known finding F-try-signal (reproduced from three committed replays, excluded from generation).",
    MODEL_NOTE)
add("C09", "model-based property testing: generated programs vs an independent reference interpreter (rapid)",
    "Generated programs nesting try/catch/finally, throw, runtime errors and functions with deferred calls (host probes, script functions, closure literals that raise or nest try/defer) are run by anko and by the reference interpreter; trace (order and multiplicity of every probe, incl. deferred ones), result, error presence and thrown-error text must agree. interrupted: nested invocations with deferred host probes are left because the context is cancelled inside the innermost one; every deferred probe must run exactly once, innermost first, LIFO.",
    MODEL_NOTE)
add("C07", "model-based property testing: probe traces of generated expressions vs an independent reference interpreter (rapid)",
    "Typed expression trees whose leaves are side-effecting probes with unique ids are placed in every call form (script functions on the direct and reflect paths, variadic, Go functions fixed/variadic/typed, plain/spread/wrong-arity/anonymous/go/defer), literal, operator, index/slice, return-list and multi-assignment position; anko's probe trace must equal the reference interpreter's (source order, each exactly once, truncated after a raising or unconvertible operand, short-circuit operands skipped), and the values must land in the right slots. op= / ++ on index targets and assignment target-vs-RHS order are compared as multisets.",
    MODEL_NOTE)
add("C17", "property-based testing with a reflection oracle over programs from a full-grammar generator (rapid)",
    "Programs generated over the full grammar (every statement/expression production in every child position) are parsed; the node set found by a generic reflection walk must be a subset of what astutil.Walk presents, every node after its parent, Walk must return nil, and a callback error at a drawn position must be returned at once with no further callback.",
    "Trusted: internal/dump.Nodes as the definition of 'every node', the generator's coverage of the grammar (measured per node kind in the evidence). Synthetic nodes Walk adds are ignored.")
add("C12", "model-based stateful property testing: generated API histories vs a reference chain-of-dictionaries model (rapid)",
    "Histories of up to 30 environment API calls (define/set/get/delete/delete-nearest/define-global on values and types, child scopes, modules, path lookup, Copy/DeepCopy, symbol listings, external lookups, Addr, String) over a growing tree of at most 12 scopes and a name pool with dotted, empty and module names are executed on real *env.Env objects and on a reference model; after every step the op result (value, error presence, ErrSymbolContainsDot) and the full observable state of every live scope, looked up from every scope, must agree; any panic is a violation.",
    "Trusted: the reference model props/c12/model_test.go. Where the statement is silent (path whose nearest binding is a non-module while a module exists further out; Set/DeleteGlobal past a nearer external lookup; Addr of nil) both behaviours are accepted, never a panic.")
add("C06", "property-based testing: algebraic laws plus a reference relation over generated value pairs (rapid)",
    "Ordered pairs drawn from nil, bools, int64/float64 edge pools, decimal-numeral strings derived from those numbers, near-numerals and nested containers (copies, one-leaf mutations, length changes) are evaluated in ==, != (both orders), in, switch and <=&&>= with literal and variable operands. Always asserted: symmetry, != is the negation, in and switch agree with ==, literal and variable operands agree. Reference values are asserted exactly where the statement defines them (same primitive type, int vs float, nil, string vs number for strict decimal numerals, structural containers).",
    "Trusted: the reference relation in props/c06 (Go ==, float64(i)==f, strconv). Pairs the statement is silent on (bool on one side, non-decimal numeral spellings, out-of-range numerals, cross-typed container leaves) are checked against the laws only.")
add("C15", "property-based testing: generated byte strings and program pairs vs validity predicates and a compositional oracle (rapid)",
    "total: random bytes, token soups over the whole token vocabulary (unterminated strings/comments, NUL, non-UTF-8), truncations/deletions/insertions/duplications/splices of generated valid programs and bracket nests up to 1500 deep must make ParseSrc return (no panic, no hang) a tree with nil error or a *parser.Error whose line/column lie within the input; parsing the same text twice gives the same dump. concurrent: batches parsed from 8 goroutines must equal the solo results (thorough tier under -race). compose: for pairs of generated valid programs parse(A+\\n+B) must be the concatenation of parse(A) and parse(B) with B's positions shifted by A's line count.",
    "Trusted: internal/dump (reflection dump incl. positions), the wild generator's validity (checked: an unparseable generated text is counted as harness problem). 'Terminates' is tested as 'returns within 20 s'. Columns are counted in runes.")
add("C03", "property-based round-trip testing of generated expression trees and literal spellings against the parser (rapid)",
    "trees: expression trees over the stated operator table (30 operators, depth<=6, all leaf kinds) are printed with minimal parentheses by the table and with every parenthesis explicit, in 31 statement positions and three whitespace styles; both spellings must parse, their canonical trees must be identical and equal to the generated tree (the table itself is the oracle), and both must evaluate to the same value/type or both fail. literals: int64 (decimal, 0x/0X, 0b/0B, optional '-'), float64 (strconv forms and value-preserving rewrites) and strings (three quote styles, every escape) must evaluate to exactly the written Go value; out-of-range spellings must be rejected. Known finding F-empty-list-index reproduced from a committed replay.",
    "Trusted: the printers and the ast->tree converter in props/c03 (canonicalisations: ParenExpr dropped, CallExpr{Name}=AnonCallExpr{Ident}, -NUMBER folded). Excluded as unspecified: `in` under `in` unparenthesised, assignment forms / <- / ++ as expressions, float underflow.")
add("C11", "property-based differential testing against Go's own conversion and call semantics via reflect.MakeFunc hosts (rapid)",
    "calls: Go function types built with reflect.FuncOf (0-4 fixed parameters, variadic tails, 0-3 results) are implemented by recording MakeFunc hosts and called from scripts in all four shapes (fixed/variadic x plain/spread) and with wrong counts; each parameter must equal the harness's own Go-conversion table applied to the argument or the call must fail without the host being invoked; results come back as nil / value / list. members: field read/write and method calls (value and pointer receivers) on Go structs reached by value, pointer, element, map value. callbacks: script functions passed as Go func values see exactly Go's arguments and their results are converted or fail. identity: Go values read back through containers, Go identity functions and script functions keep type and value. Arguments and spread operands also arrive through interface-typed hops (list element, map entry, script/Go identity call). history: 2-4 member reads/writes on values of ten struct types that share field names at different positions (unnamed, reflect.StructOf, same-named local types, script-made), judged against Go's own field access.",
    "Trusted: props/c11/conv.go (reference conversion written with Go conversion syntax). Not asserted (statement silent): one-character string to byte/rune, pointer/non-pointer mismatches, out-of-range float to int, surplus spread elements (weak law only).")
add("C19", "property-based differential testing of builtins against native Go plus exhaustive enumeration of the package tables (rapid)",
    "range (in a sandbox child with a time and heap bound; plus in-process histories that modify earlier results in place before calling range again), keys, len, typeOf/kindOf, the toX conversion family and misuse of 19 builtins are compared with reference implementations written directly in Go (big.Int progression, reflect, strconv, fmt). Every entry of env.Packages / env.PackageTypes (595 on this tree, enumerated completely) must be the Go function of that qualified name (runtime.FuncForPC) or the Go type of that name and package path, and import() must hand out the same symbol.",
    "Trusted: the Go reference implementations in props/c19. Table variables/constants are only checked for validity (the statement covers functions and types). Not judged: float->int outside int64, non-decimal numeral strings.")
add("C01", "generated-input search (rapid) with a crash oracle in a sandbox worker process",
    "Three generators feed one harness: 150 statement templates (every assignment target form, empty right-hand sides, zero-argument spreads, calls/go/defer, for-in, switch, delete/close/send/receive, make/new with every type form, typed literals, import, every operator, index/slice/member, throw, op=) filled from 130 operand expressions of every value kind and provenance; whole programs from the full-grammar generator after a value-universe prelude; token soups, random bytes and mutations of valid programs. Each source is parsed and run with Options{} in a fresh environment inside a worker process; a Go panic recovered on the calling goroutine or the death of the worker with a panic/fatal error is a violation. A panicking source is re-run in a fresh worker (a panic that depends on what ran before in the process is reported with that history), and a canary program runs after every case so that a source that corrupts process-wide state is caught and blamed.",
    "Trusted: the worker protocol (an answer is only sent after the goroutines started by the script have finished, so a death is attributed to the case in flight). Excluded and counted: out-of-memory, stack overflow, concurrent map access between script goroutines, scripts that do not finish, time inside one host call.")
add("C02", "generated-program search (rapid) over program shapes x cancellation instants with a bounded-return and no-progress oracle",
    "A spinning or blocked core (10 loop/recursion forms, 4 producer/consumer forms with two consumers or a relay on buffered channels, 5 blocked channel forms) is wrapped in up to three of 21 constructs (script functions on both call paths, anonymous call, go+join, try body/catch/finally, ?? either side, ternary, deferred call, list element, Go-call argument, module, if, switch, for-in), each level followed by a sentinel probe. In a quarter of the cases the outermost function is defined by an earlier run of the same environment (background context). The context is cancelled from inside the k-th host call (deterministic) or asynchronously after the core was entered; ExecuteContext must return within 3 s with \"execution interrupted\", and no sentinel or tick may run afterwards. Known finding F-callback-ctx reproduced from a committed replay.",
    "Trusted: the tick/sentinel accounting (cancellation counted as visible only after cancel() returned; two in-flight ticks tolerated in asynchronous mode). 'Short bounded time' is tested as 3 s. A core that does not return is reported once, unshrunk.")
add("C10", "model-based stateful property testing: container operation histories mirrored on real Go slices, maps, strings and structs (rapid)",
    "Histories of 3-25 single-statement container operations (read, write, append by += / + / index len, 2- and 3-index slicing, delete, len, in, aliasing by assignment and by mutating script functions, concatenation with other live variables onto empty/cap-0 left sides, map keys arriving as literals, container elements or function results (hashable and unhashable), member access, string index/slice/store, re-creation by literals and make) on 2-6 variables of ten kinds (untyped and typed slices and maps, strings, a six-field struct) are executed by anko and mirrored on real Go values; after every step error presence, the value read and the content, Go type and capacity of EVERY variable must agree, and an erroring step must leave every variable unchanged.",
    "Trusted: the mirror in props/c10 (Go's own append/reslice semantics via reflect). Not generated (unspecified): struct copies, slicing beyond len within cap, bool/numeral-string indices, variables bound to typed element or field slots.")
add("C13", "schedule-controlled property testing at lock granularity with a sequential-consistency oracle, plus race-detector stress (rapid)",
    "atomicity: env/*.go of the current tree is rewritten at check time (go test -overlay) so that every mutex operation yields to a cooperative scheduler; generated programs of 2-3 threads x 1-4 scope operations run under rapid-drawn schedules; deadlock, lock misuse, panics, and any outcome (per-op results, copies, final contents) not explained by some sequential order of the operations on a reference scope model are violations. race: the same programs run on real goroutines with real locks in a -race child process, repeated with varied start orders; a data race naming package env is a violation.",
    "Trusted: the overlay rewrite (checked per case: every env call must be seen taking its lock), the reference scope model and the exhaustive interleaving search. Blind to accesses made without any lock in sub-check (a); those are left to the probabilistic race stress.")
add("C20", "metamorphic property testing: the same operation with operands of different provenance (rapid)",
    "76 operation templates (operators, index/slice, len, in, calls and spread calls, member, deref, for-in, switch, conditions, make sizes, channel ops, delete, throw, assignment targets, defer/go, typed literal elements, ??, destructuring) are instantiated with operand values of every kind (incl. typed nil pointer/slice/map); each operand is reached once through a plain variable (baseline) and once through a chain of 1-3 hops (slice element, map entry, struct field, script call, Go call returning interface{}, parentheses, ternary, ??). Both programs must agree on error-or-success, result value and dynamic type, and on the final content of every shared object.",
    "Trusted: nothing about the baseline's own correctness is assumed (metamorphic). Error message texts are not compared. Excluded: writes that legitimately need a variable to re-assign (append at len, string element store, ++/op= on a chain, nil-map store), &x.")
add("C16", "property-based testing of generated producer/consumer pipelines under perturbed schedules with an oracle computed from the specification (rapid, -race)",
    "Pipeline specifications (0-200 items, 1-4 stages or 2-4 producers fanning in, buffers 0-3, element types int64/float64/string/interface with the conversions Go defines, four receive styles, every go-statement form on both call paths with arguments overwritten right after the go statement, yield points) are rendered to anko and run repeatedly under GOMAXPROCS 1, 2 and 16; the delivered sequence (order, multiplicity, dynamic type), the behaviour of receive/two-value receive/for-in/send/close on closed channels and the absence of errors are computed from the specification. A run that does not finish (stop-the-world deadlock snapshot or deadline, re-confirmed solo) is a lost or stuck message. Consumers may leave a for-in early (break / return / throw) and resume on the same channel; stages may restart their loop; buffers may be pre-filled and closed before the consumer starts. fanout: 2-4 workers in every receive style drain one buffered channel (multiset equality; a receive expression may yield nil only after close). closed: single-goroutine operation sequences (incl. for-in left by break) vs a FIFO-with-closed-flag model.",
    "Trusted: the expectation computed in native Go from the specification. Schedules are those the runtime produces under perturbation (a sample). A race-detector report naming package anko is reported as a violation (not replayable).")
add("C14", "metamorphic property testing: one shared parsed tree vs fresh parses, sequentially and from 8 goroutines, with structural dumps and the race detector (rapid, -race)",
    "reuse: (in a third of the cases the 8 concurrent runs come before any other execution of the source in the process) generated goroutine-free programs (scopes/control/errors profiles plus ++/op=, anonymous and deferred calls) are parsed once and run 3-4 times in environments of alternating presets (the same names bound to different Go functions) and then from 8 goroutines at once; every run must equal a fresh parse of the same source run alone in an equal fresh environment (value, error text, probe trace, final bindings), two fresh runs must agree, and the reflection dump of the shared tree (incl. CallExpr.Func and literal values) must be identical before and after. tree: full-grammar programs, dump unchanged after sequential and concurrent runs. import: rebinding a symbol inside an imported package table (five spellings, incl. assignment straight into the returned table) must not be visible to another import nor in env.Packages, and nothing of environment A may be reachable through B's copy of a package. residue: programs that write through values the interpreter hands out from shared boxes (nil/true/false, no-value results, small integers, pointers taken with &) run in their own environment; a fixed canary program in a fresh environment must afterwards evaluate exactly as at process start. A race-detector report naming package anko is a violation.",
    "Trusted: internal/dump as the witness of 'the tree did not change'. Race reports are not replayable deterministically (the report text is the saved artefact). Map-order-dependent programs are not generated for the result comparison.")
add("C18", "differential property testing: the built anko executable vs vm.Execute in-process on generated scripts (rapid)",
    "The executable is built from the tree under test at check time. Generated scripts (model-generator programs whose probes are written in anko on top of println, optionally echoing args and importing bundled packages; mutated programs that mostly fail to parse; full-grammar programs that mostly fail at run time; tiny scripts; a missing file) are supplied as a file with 0-3 trailing arguments or with -e. Exit status must be 0 iff the in-process vm.Execute of the same source in an equally prepared environment returns nil, 4 otherwise, 2 for the unreadable file; standard output must equal the in-process print output followed by exactly the line `Execute error: <library error text>` when it fails.",
    "Trusted: the in-process environment mirrors anko.go's setup (args, core.Import, packages) with print functions redirected to a buffer. Not generated: stdin-reading, os.Exit, goroutines, non-terminating scripts, empty -e.")

# extensions made after the second round of seeded changes (appended to the level text)
EXTRA = {
 "C01": " Further templates store pointers (typed nil ones among them) into slots of other pointer types and run two script goroutines that share scopes only; a 'concurrent map' fault detected inside package env (the interpreter's own scope tables) is a crash, in a script container it stays excluded.",
 "C02": " A third of the cases are in tail position (no statement follows the core at any level, so a dropped interruption shows as a nil error); wrappers include empty catch blocks, defers at the top of a frame / among other defers / without return, return of a call; blocked cores include the channel-to-channel send.",
 "C04": " By-construction patterns: every binder form (assignment, var, multi-assignment, two-value map lookup, receive assignment, function statement, for-in variable, catch variable, module) on a fresh name inside every block form, observed inside and after; a named function rebinding or recursing through its own name; closure factories called several times with the closures called afterwards.",
 "C05": " Leaves come from seven provenances (literal, variable, Go call, list element, element of a list variable, map entry, ternary); comparison roots include neighbouring integers beyond 2^53.",
 "C06": " Integer numerals beyond int64 are decided where both readings of the statement agree; membership in a statically typed one-element slice must agree with ==; sub-check stateless: one comparison site evaluated for several values in a row must agree with the site evaluated for each value alone.",
 "C07": " The environment also binds nil Go maps, a Go array (sliced inside callee bodies so that they fail inside the interpreter) and a Go function taking address-of arguments (&x, &a[p()], &m[p()]).",
 "C08": " C-style loops without condition / init / post, maps whose keys print alike, a break/continue outside any loop of a callee called from the caller's loop; a program that no longer terminates is reported as no-termination (deadline, repeated alone, unshrunk).",
 "C09": " Script function literals handed to Go functions with result-less func parameters (errors inside them must surface), spread calls whose spread operand raises.",
 "C11": " The pool struct embeds a struct declared before a field shadowing one of its fields (Go's shallowest-field rule for member reads and writes).",
 "C13": " DeepCopy is among the operations.",
 "C14": " types: programs over type names bound differently per environment (or defined by a run), each parsed once, run in environments derived from one template by Copy / DeepCopy / NewEnv; every run equals a fresh parse in an equally derived fresh environment and the template learns nothing.",
 "C15": " Further families: single string literals with plain and backslash-prefixed runes over every ASCII code and the UTF-8 boundaries; large sources (>= 4 KiB) parsed repeatedly from 32 goroutines.",
 "C16": " go calls also pass spread lists; twins: 2-4 independent pipelines run at once from ONE source text (int64 and pointer items incl. nil pointers, six forwarding call forms), each must deliver exactly its own items in order.",
 "C17": " A third of the programs carry chains, nests and lists of one node kind with up to 40 members (operator, ??, ternary, call, index, member, unary chains; nested literals; long lists; else-if chains; many cases).",
 "C18": " Also: script paths that exist but cannot be read (directory, path below a file), defined()/load() reaching into the script's scope, output written through the bundled os.Stdout value (expected output known by construction).",
 "C19": " Table variables and constants are compared with the Go identifiers of the same name (compile-time references); scripts rebinding members of imported packages run before the table comparison.",
 "C20": " Also: neighbouring integers beyond 2^53 under comparisons, methods of non-struct Go values, defer/go calls with spread lists.",
}
EXTRA3 = {
 "C01": " Third round: values of every basic type name (unsigned, narrow, float32) in every operator position, namespace paths through non-modules, typed nil module pointers; unbiased template draws.",
 "C02": " Third round: a recursion cancelled 20-30 thousand frames deep, finally blocks after a failing catch (excluded when never entered).",
 "C03": " Third round: flat chains of one precedence level over leaves of every kind.",
 "C04": " Third round: var with one list value over pool names, C-style loops over an outer counter, nested script calls in arguments.",
 "C05": " Third round: left operands of the same level printed without parentheses; sub-check site (one operator site, many operand pairs).",
 "C06": " Third round: adjacent int64 pairs beyond 2^53, a slice against a view of itself.",
 "C07": " Third round: the two-target 'value, found' statement over probe-laden operands.",
 "C08": " Third round: float switch cases against integer subjects, for-in over a host slice of nil pointers.",
 "C09": " Third round: throws of the interpreter's own signal texts, defer with spread lists (modelled).",
 "C10": " nilmap: a nil map through failing and succeeding operations stays exactly as it was after every failing one.",
 "C12": " Third round: external lookups that return zero values on a miss.",
 "C13": " Third round: a yield point after every unlock, warm-up histories before the threads start, operations through a child scope, lock-free calls treated as atomic steps.",
 "C14": " interleave: two environments take turns running programs that build and later use closures, modules and map-changing loops; each must behave as when running alone, and repeatably.",
 "C15": " Third round: tool-special first lines, several else/default blocks, parser.EnableDebug(0) between parses.",
 "C16": " Third round: channels of a host-defined named element type, ok flag declared outside the receive loop, runs under context.Background().",
 "C17": " Third round: large flat programs (tens of thousands of nodes).",
 "C18": " Third round: load of an unparsable file, deep terminating recursion, single-quoted sources with -e.",
 "C19": " Third round: NaN-keyed maps for keys, range through spread/go/defer call forms.",
}
for _i, _t in EXTRA.items():
    CHECKS[_i]["text"] += _t
for _i, _t in EXTRA3.items():
    CHECKS[_i]["text"] += _t
EXTRA4 = {
 "C01": " Fourth round: every operator over number-like operands (fractions that truncate to zero, numeral strings, NaN/Inf).",
 "C02": " Fourth round: the cancellation lands in the middle of a statement that then fails with an ordinary error inside a try body.",
 "C03": " Fourth round: spread calls with callees of every postfix form in the tree model.",
 "C04": " Fourth round: every fourth program runs in a child (with an empty external lookup) of the environment holding the host functions.",
 "C05": " Fourth round: integers handed over by Go as plain int.",
 "C06": " Fourth round: sub-check kinds - the laws for values of every Go numeric kind (float32, narrow and unsigned integers).",
 "C07": " Fourth round: address-of on the left of ??, one defer statement executed with two different callees.",
 "C08": " Fourth round: C-for without post/condition, tiny non-zero floats as conditions, nil and string switch subjects, a second run with throw/try/defer switched on.",
 "C09": " Fourth round: throws of empty / nil values, one defer statement executed with different callees.",
 "C10": " Fourth round: two nameless struct types sharing field names, empty append operands of another nesting depth, sub-check reentrant (the index is computed by a function that replaces the container).",
 "C11": " Fourth round: sub-checks named (methods of named slice/int/map types), nilbind (nil bindings are separate), parallel (one callback invoked from several goroutines at once).",
 "C14": " Fourth round: sub-check importtypes (package type names stay in the importer's copy).",
 "C16": " Fourth round: channel-to-channel forward and nil items in closed; hanging runs reported unshrunk.",
 "C19": " Fourth round: arguments reach the builtins through list / map / function-result hops.",
 "C20": " Fourth round: the value as the result of a script callback with one, two or typed results.",
}
for _i, _t in EXTRA4.items():
    CHECKS[_i]["text"] += _t
EXTRA5 = {
 "C01": " Fifth round: string stores at number-like indexes, values of script-function types, nil items through for-in over channels, type definitions against type resolutions, nil values of interface types with methods.",
 "C02": " Fifth round: a straight line of host calls, deferred spinners / blockers behind the interrupted frame.",
 "C04": " Fifth round: outer bindings against every always-binding form (also for-in over a channel), loop conditions that raise, module bodies left early.",
 "C05": " Fifth round: bare unary operators, numeral-string operands of minus.",
 "C07": " Fifth round: one literal evaluated repeatedly.",
 "C08": " Fifth round: long for-in left by break, return lists with aliasing elements, returns from module blocks.",
 "C09": " Fifth round: deferred calls against a returned element, body and deferred call both failing.",
 "C10": " Fifth round: runs of stores at index len, a slice spread into a variadic parameter.",
 "C11": " Fifth round: nil-pointer receivers, sub-checks reconv (a container changed between calls) and arrayptr.",
 "C12": " Fifth round: sub-check shadowed (scripted module / shadow / nil-scope-pointer histories).",
 "C13": " Fifth round: gets served by an external lookup.",
 "C14": " Fifth round: receive expressions and fresh literals in reused trees, residue over made structs and list-held map keys, deep copies of a three-scope template.",
 "C15": " Fifth round: raw strings, block comments, trailing comments; raw-string-heavy concurrent batches.",
 "C16": " Fifth round: sub-checks drained (every element type, close on odd operands) and goargs (side-effecting go arguments, 300 parked goroutines).",
 "C18": " Fifth round: very long lines, byte order marks, per cent signs in error texts, relative script paths, package types.",
 "C20": " Fifth round: host-bound named values, Go parameters that need a dynamic conversion.",
}
for _i, _t in EXTRA5.items():
    CHECKS[_i]["text"] += _t
CHECKS["C19"]["note"] = CHECKS["C19"]["note"].replace("Table variables/constants are only checked for validity (the statement covers functions and types).", "Table variables/constants without a reference value are only checked for validity.")
EXTRA6 = {
 "C01": " Sixth round: script goroutines that share nothing but the interpreter keep defining functions of many parameters; a fault in a map the interpreter keeps for itself is a crash.",
 "C02": " Sixth round: a module written after a failed path through it, functions called once by an earlier run, deferred spread calls, the target of an ok flag being evaluated.",
 "C04": " Sixth round: sub-check assigns (every assigning form, v, ok = m[k] and Go write-backs through &name among them, on names bound in an enclosing scope inside every block form).",
 "C06": " Sixth round: sub-check foreign (laws over functions, structs, arrays, channels, pointers and pointers to pointers), same-kind Go values up to MaxUint64 against Go's ==, white-space-padded numerals where both readings agree.",
 "C07": " Sixth round: the in operator, keys that can be the key of no map, every op= shorthand with the clause op-assign-order.",
 "C08": " Sixth round: all eight C-for header forms.",
 "C09": " Sixth round: a failing operand in the middle of a compound expression, runtime errors raised by the interpreter's own operations, deferred stores into returned typed elements and struct fields.",
 "C10": " Sixth round: sub-check basictypes (containers and struct fields over every basic type name against Go's types and conversions).",
 "C11": " Sixth round: one-character strings into byte / rune parameters (error or exactly that character), callbacks of 4-7 parameters, sub-check gocall (calls launched with go).",
 "C13": " Sixth round: modules, path lookups, the define-global family, built-in type names.",
 "C14": " Sixth round: sub-check objects (objects made by package constructors, observed, changed and observed again in fresh environments and concurrently).",
 "C17": " Sixth round: Walk runs guarded; a non-nil result is judged by != nil alone.",
 "C18": " Sixth round: scripts that write to standard error, log through the bundled log package and re-configure the standard logger.",
 "C19": " Sixth round: every function entry is compared with the Go identifier of its name (compile-time reference) by type and code pointer.",
 "C20": " Sixth round: nil channels and nil functions among the typed nils.",
}
for _i, _t in EXTRA6.items():
    CHECKS[_i]["text"] += _t
EXTRA7 = {
 "C01": " Seventh round: types of 8 bytes to 1 MiB in every type form; a slot whose content is replaced while a statement is using it.",
 "C02": " Seventh round: a two-value receive whose value target is a new name.",
 "C03": " Seventh round: numeric leaves of trees spelled in hexadecimal, binary, leading-zero and exponent forms directly against operators; unparenthesised chains of ?? and ?: over failing, nil, literal-first and identifier operands.",
 "C04": " Seventh round: sub-check overlap (2-8 concurrent callers of one function value; every invocation sees its own arguments).",
 "C05": " Seventh round: operands recovered by ?? from a failure inside the expression; sub-checks again (one parsed tree evaluated several times) and parallel (independent interpreters at the same time).",
 "C06": " Seventh round: non-decimal spellings (hex floats, digit separators, Inf / NaN words) are unequal to every number; sub-check live-slot (in / switch / == agree when the compared expression overwrites the slot the item was read from).",
 "C07": " Seventh round: slot patterns (one operand read from a slot that a later operand, or the callee, stores into) in every operand position the statement lists.",
 "C09": " Seventh round: deferred calls whose arguments are read from slots stored into later (variadic, wide, Go callees; spread lists).",
 "C10": " Seventh round: sub-check refstore (maps and slices held in variables stored into typed and untyped places, mirrored on real Go values).",
 "C11": " Seventh round: sub-checks vcallbacks (variadic Go func types) and liveargs (an earlier argument read from a place a later argument overwrites).",
 "C12": " Seventh round: reflect.Values that cannot be handed out again are invalid requests; external lookups of every Go representation (pointer, named map, struct value, named func).",
 "C13": " Seventh round: SetExternalLookup among the operations; Set / Addr / DeleteGlobal through a fetched module against a path walking down into it.",
 "C16": " Seventh round: go calls of variadic workers with arguments read from list and typed-slice elements.",
 "C17": " Seventh round: sub-check together (2-8 goroutines walk one freshly parsed tree at the same moment; each is judged like a solitary walk).",
 "C19": " Seventh round: range with a wrong-type argument at every position; sub-check conv_overlap (conversion builtins called at the same time, each judged against its own argument).",
 "C20": " Seventh round: sub-check held (the place an operand came from is overwritten after the operand was bound or used; baseline over a plain variable).",
}
for _i, _t in EXTRA7.items():
    CHECKS[_i]["text"] += _t
EXTRA8 = {
 "C03": " Eighth round: sub-check histories (reference-valued expressions - pointers, slices, maps made by & * index slice member call ?: ?? - kept in ten statement positions, written through and read back; minimal and fully parenthesised spelling compared on the store and on the value read through).",
 "C05": " Eighth round: sub-check repeat (string * n with counts from the whole int64 range against empty-valued strings, affordable products, zero and negative counts; strings.Repeat is the reference).",
 "C08": " Eighth round: sub-check forin_nan (for-in over script-built and host-bound maps with entries under NaN-containing keys: every entry is visited once whatever the body deletes, breaks or returns).",
 "C12": " Eighth round: external lookups that answer with a nil error and a value that cannot be handed out count as a miss; sub-check lookups (scripted histories around scopes that carry a lookup).",
 "C09": " Eighth round: sub-check errors-flow (a try nested in a catch block under the same catch-variable name, rethrown; loop header expressions - post and condition - that raise after a round ended by continue).",
 "C13": " Eighth round: sub-check lockorder (String of module-holding scopes against operations that walk up through the module or its child: no schedule ends with every thread waiting for a lock of another scope).",
 "C17": " Eighth round: sub-checks errs (50 callback error values: standard-library sentinels, anko's own, wrapped, uncomparable dynamic types - Walk returns that very value) and again (later walks of one tree after a callback wrote over presented values that are not nodes of the tree).",
 "C19": " Eighth round: sub-checks tostring_fmt (values formatted through Format / Error / String / GoString methods, host-bound and made by bundled constructors, against fmt.Sprint) and result_history (the address of a builtin's result is taken and written through; the builtin still gives the Go answer in this and later runs; run in a sandbox child).",
 "C04": " Eighth round: sub-check modules (a module statement for a name already bound further out, in every block form, function and closure: it binds in the current block only, its body sees the locals of the declaring block, the outer module is unchanged afterwards).",
 "C15": " Eighth round: sub-check words (identifiers that resemble keywords - prefix, suffix, other case, two in a row - as first token of a line at every join of an n-ary composition).",
 "C11": " Eighth round: a value met by a pointer parameter (and the reverse) has no conversion and must fail (sub-check ptrmix); sub-checks laterargs (deferred and go calls of Go functions whose argument places are stored into after the statement) and retained (a callback kept by Go and invoked after the handing run returned and its context was cancelled).",
 "C16": " Eighth round: sub-checks loopvar (for-in bodies over channels that assign their loop variable or keep items under other names) and heldsend (senders parked in a send of a slot's content, observed by a stopped-world goroutine snapshot, before the slot is overwritten: the value at the send statement arrives).",
}
for _i, _t in EXTRA8.items():
    CHECKS[_i]["text"] += _t
