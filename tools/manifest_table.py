NA_REASONS = {}
add("C05", "property-based differential testing against a native-Go reference evaluator (rapid)",
    "Generated typed expression trees (depth<=4) over the full operator set with operands from int64/float64/string edge pools are evaluated by anko and by a reference evaluator written with Go's own int64/float64 operators; value, dynamic type and error-presence must agree. Exploration: held on every generated case.",
    "Trusted: Go arithmetic as the specification, the tree printer (fully parenthesised), rapid. Only operand-kind combinations the statement defines are asserted.")
