#!/usr/bin/env python3
"""tools/add_round8.py <ID> <file-with-paragraph>: appends the paragraph to the end of the `### <ID>` part of DESIGN.md §3."""
import sys,re
ID,f=sys.argv[1],sys.argv[2]
para=open(f).read().strip()
p='/verif/DESIGN.md'; s=open(p).read()
m=re.search(r'^### %s .*$'%ID, s, re.M)
assert m, ID
rest=s[m.end():]
n=re.search(r'^(### |## |-{20,})', rest, re.M)
end=m.end()+n.start()
head=s[:end].rstrip('\n')
if para[:200] in s: sys.exit('already there')
s=head+'\n\n'+para+'\n\n'+s[end:]
open(p,'w').write(s)
print('inserted into',ID)
