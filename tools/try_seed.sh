#!/bin/bash
# tools/try_seed.sh <seed-name e.g. C01-4> <check-id> [tier] [seed]: runs one check against a scratch worktree of /repo HEAD
# with seeded/<seed-name>/patch.diff applied; the worktree is removed afterwards. Development aid only.
export GOFLAGS=-mod=mod GOPROXY=off GOSUMDB=off GOTOOLCHAIN=local
S=$1; C=$2; T=${3:-quick}; SEED=${4:-1}
WT=/tmp/try-$S-$C-$$
git -C /repo worktree prune; git -C /repo worktree add -q --detach $WT || exit 2
P=/verif/seeded/$S/patch.diff; [ -f /verif/seeded/$S/patch.rebased.diff ] && P=/verif/seeded/$S/patch.rebased.diff
(cd $WT && git apply $P) || { git -C /repo worktree remove --force $WT; exit 2; }
rm -rf /verif/replays/$C/found
out=$(cd /verif && VERIF_SEED=$SEED VERIF_REPO=$WT ./check $C $T 2>&1); code=$?
echo "$out" | grep -E "^VIOLATION|sig=|$T seed|INCONCL|KNOWN" | cut -c1-400 | head -${LINES_MAX:-12}
echo "$S vs $C $T seed=$SEED -> exit $code"
rm -rf /verif/replays/$C/found
git -C /repo worktree remove --force $WT
