package env_test

import (
	"testing"

	"github.com/mattn/anko/env"
)

// Copy / DeepCopy must give an independent snapshot no matter what happened to
// the scope before: here the scope's table was filled and then emptied again.
func TestDemoC12CopyAfterScopeWasEmptied(t *testing.T) {
	root := env.NewEnv()
	scope := root.NewEnv()

	// control: a never-used scope and a non-empty scope copy independently
	fresh := root.NewEnv()
	freshCopy := fresh.Copy()
	freshCopy.Define("x", 1)
	if _, err := fresh.Get("x"); err == nil {
		t.Fatalf("control failed: copy of fresh scope leaked into original")
	}

	// history: define, delete (table is now empty again), copy, define on the copy
	if err := scope.Define("tmp", 1); err != nil {
		t.Fatal(err)
	}
	scope.Delete("tmp")
	if n := len(scope.GetValueSymbols()); n != 0 {
		t.Fatalf("scope should be empty, has %d symbols", n)
	}

	snap := scope.Copy()
	if err := snap.Define("b", "copy-only"); err != nil {
		t.Fatal(err)
	}
	if v, err := scope.Get("b"); err == nil {
		t.Errorf("Define on the copy became visible in the original: b = %#v", v)
	}
	if syms := scope.GetValueSymbols(); len(syms) != 0 {
		t.Errorf("original scope gained symbols %v after the copy was modified", syms)
	}

	// and the other direction, through DeepCopy of a chain
	scope.Delete("b") // no-op on a correct Env; scope's table is allocated but empty
	deep2 := scope.NewEnv().DeepCopy() // chain: leaf' -> scope' -> root'
	if err := scope.Define("c", "orig-only"); err != nil {
		t.Fatal(err)
	}
	if v, err := deep2.Get("c"); err == nil {
		t.Errorf("Define on the original became visible in its deep copy: c = %#v", v)
	}
}
