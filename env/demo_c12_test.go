package env_test

import (
	"fmt"
	"reflect"
	"testing"

	"github.com/mattn/anko/env"
)

type demoC12Lookup struct {
	types map[string]reflect.Type
}

func (l *demoC12Lookup) Get(symbol string) (reflect.Value, error) {
	return env.NilValue, fmt.Errorf("undefined symbol '%s'", symbol)
}

func (l *demoC12Lookup) Type(symbol string) (reflect.Type, error) {
	if t, ok := l.types[symbol]; ok {
		return t, nil
	}
	return env.NilType, fmt.Errorf("undefined type '%s'", symbol)
}

// Built-in type names are the LAST resort: a scope's external lookup is
// consulted right after its own table, also in the root scope.
func TestDemoC12ExternalTypeBeforeBasicTypes(t *testing.T) {
	want := reflect.TypeOf(int32(0))
	ext := &demoC12Lookup{types: map[string]reflect.Type{"int64": want, "custom": want}}

	root := env.NewEnv()
	root.SetExternalLookup(ext)
	child := root.NewEnv()

	// sanity: names that are not built-in type names come from the external lookup
	if got, err := root.Type("custom"); err != nil || got != want {
		t.Fatalf("root.Type(custom) = %v, %v; want %v", got, err, want)
	}
	// sanity: other built-in names still resolve
	if got, err := child.Type("string"); err != nil || got != reflect.TypeOf("") {
		t.Fatalf("child.Type(string) = %v, %v", got, err)
	}

	if got, err := root.Type("int64"); err != nil || got != want {
		t.Errorf("root.Type(int64) = %v, %v; want %v from the external lookup", got, err, want)
	}
	if got, err := child.Type("int64"); err != nil || got != want {
		t.Errorf("child.Type(int64) = %v, %v; want %v from the root's external lookup", got, err, want)
	}

	// the same external lookup on a non-root scope must behave identically
	root2 := env.NewEnv()
	inner := root2.NewEnv()
	inner.SetExternalLookup(ext)
	if got, err := inner.Type("int64"); err != nil || got != want {
		t.Errorf("inner.Type(int64) = %v, %v; want %v", got, err, want)
	}
}
