package env_test

import (
	"sync"
	"testing"

	"github.com/mattn/anko/env"
)

// Run with -race.
// A type lookup and the FIRST type definition on the same scope, from two
// goroutines. Both are plain environment operations and must be free of data
// races; the race detector fails the test if either touches the scope's type
// table outside the scope lock.
func TestC13TypeLookupRacesFirstDefineType(t *testing.T) {
	parent := env.NewEnv()
	if err := parent.DefineType("T", int64(0)); err != nil { // read-only parent
		t.Fatal(err)
	}

	for round := 0; round < 200; round++ {
		e := parent.NewEnv() // fresh scope: no type defined in it yet
		start := make(chan struct{})
		var wg sync.WaitGroup
		wg.Add(3)
		go func() {
			defer wg.Done()
			<-start
			if err := e.DefineType("T", ""); err != nil {
				t.Errorf("DefineType: %v", err)
			}
		}()
		for i := 0; i < 2; i++ {
			go func() {
				defer wg.Done()
				<-start
				ty, err := e.Type("T")
				if err != nil {
					t.Errorf("Type: %v", err)
					return
				}
				// either the parent's (before the define) or the scope's own (after it)
				if k := ty.Kind().String(); k != "int64" && k != "string" {
					t.Errorf("Type(T) = %v", ty)
				}
			}()
		}
		close(start)
		wg.Wait()

		if ty, err := e.Type("T"); err != nil || ty.Kind().String() != "string" {
			t.Fatalf("round %d: after DefineType, Type(T) = %v, %v", round, ty, err)
		}
	}
}
