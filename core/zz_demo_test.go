package core_test

import (
	"reflect"
	"testing"

	"github.com/mattn/anko/core"
	"github.com/mattn/anko/env"
	"github.com/mattn/anko/vm"
)

func progression(start, stop, step int64) []int64 {
	arr := []int64{}
	for i := start; (step > 0 && i < stop) || (step < 0 && i > stop); i += step {
		arr = append(arr, i)
	}
	return arr
}

func runRange(t *testing.T, script string) interface{} {
	t.Helper()
	e := env.NewEnv()
	core.Import(e)
	got, err := vm.Execute(e, nil, script)
	if err != nil {
		t.Fatalf("%s: unexpected error %v", script, err)
	}
	return got
}

// range(n) is 0, 1, ..., n-1 on every call, whatever a script did with the
// result of an earlier call.
func TestRangeIsAFreshProgressionEveryCall(t *testing.T) {
	// plain calls first: these are right with or without the defect
	for _, n := range []int64{0, 1, 5, 63, 64, 65} {
		e := env.NewEnv()
		core.Import(e)
		if err := e.Define("n", n); err != nil {
			t.Fatal(err)
		}
		got, err := vm.Execute(e, nil, `range(n)`)
		if err != nil {
			t.Fatal(err)
		}
		if want := progression(0, n, 1); !reflect.DeepEqual(got, want) {
			t.Errorf("range(%d) = %v, want %v", n, got, want)
		}
	}

	// 1. a script modifies an element of a result, then asks again
	got := runRange(t, `a = range(4); a[1] = 100; range(4)`)
	if want := progression(0, 4, 1); !reflect.DeepEqual(got, want) {
		t.Errorf("range(4) after a[1] = 100 on an earlier range(4): got %v, want %v", got, want)
	}

	// 2. a script appends to a short result, then asks for a longer range
	got = runRange(t, `b = range(10); b += 777; b += 888; range(12)`)
	if want := progression(0, 12, 1); !reflect.DeepEqual(got, want) {
		t.Errorf("range(12) after appending to an earlier range(10): got %v, want %v", got, want)
	}

	// 3. and the damage must not leak into an unrelated environment / run
	runRange(t, `c = range(20); for i = 0; i < len(c); i++ { c[i] = c[i] * 2 }; c`)
	got = runRange(t, `s = 0; for i in range(20) { s += i }; s`)
	if want := int64(190); got != want {
		t.Errorf("sum over range(20) in a fresh environment: got %v, want %v", got, want)
	}
}
