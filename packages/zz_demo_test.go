package packages_test

import (
	"strings"
	"testing"

	"github.com/mattn/anko/env"
	_ "github.com/mattn/anko/packages"
	"github.com/mattn/anko/vm"
)

// strings.ToTitle offered to import("strings") must be Go's strings.ToTitle.
// Title case and upper case differ only for a handful of code points
// (the Latin digraphs U+01C4..U+01CC, U+01F1..U+01F3, ...).
func TestStringsToTitleIsGoToTitle(t *testing.T) {
	inputs := []string{"hello", "ǆ", "ǉubav", "ǌ", "ǳ", "xǆyǳz"}
	for _, in := range inputs {
		e := env.NewEnv()
		if err := e.Define("s", in); err != nil {
			t.Fatal(err)
		}
		got, err := vm.Execute(e, nil, `strings = import("strings"); strings.ToTitle(s)`)
		if err != nil {
			t.Fatalf("ToTitle(%q): %v", in, err)
		}
		want := strings.ToTitle(in)
		if got != want {
			t.Errorf("strings.ToTitle(%q) from script = %q, Go gives %q", in, got, want)
		}
	}
}
